/* LD_PRELOAD shim: make getrandom() a deterministic function of VERIF_HASH_SEED.
 *
 * Rust's std takes the keys of every std::collections::HashMap (RandomState) from
 * getrandom(2) through the libc symbol.  Overriding it makes the iteration order of
 * every HashMap/HashSet in the process a function of the seed, so hash-order
 * exploration is seeded and replayable instead of "run again and hope".
 * Nothing in the compiler is changed for this.  Seed unset or 0: fall through to
 * the real syscall. */
#define _GNU_SOURCE
#include <stdint.h>
#include <stdlib.h>
#include <string.h>
#include <sys/syscall.h>
#include <sys/types.h>
#include <unistd.h>

static uint64_t counter;

static uint64_t splitmix64(uint64_t x) {
  x += 0x9E3779B97F4A7C15ull;
  x = (x ^ (x >> 30)) * 0xBF58476D1CE4E5B9ull;
  x = (x ^ (x >> 27)) * 0x94D049BB133111EBull;
  return x ^ (x >> 31);
}

ssize_t getrandom(void *buf, size_t buflen, unsigned int flags) {
  const char *s = getenv("VERIF_HASH_SEED");
  uint64_t seed = s ? strtoull(s, NULL, 10) : 0;
  if (seed == 0) return syscall(SYS_getrandom, buf, buflen, flags);
  unsigned char *p = buf;
  size_t left = buflen;
  while (left > 0) {
    uint64_t k = __atomic_fetch_add(&counter, 1, __ATOMIC_RELAXED);
    uint64_t r = splitmix64(seed * 0x100000001B3ull + k);
    size_t n = left < 8 ? left : 8;
    memcpy(p, &r, n);
    p += n;
    left -= n;
  }
  return (ssize_t)buflen;
}
