use write_fonts::{dump_table, read::{FontRef, TableProvider, FontRead}, tables::post::Post};
fn main() {
    let p = std::env::args().nth(1).unwrap();
    let data = std::fs::read(&p).unwrap();
    let font = FontRef::new(&data).unwrap();
    let raw = font.table_data(write_fonts::types::Tag::new(b"post")).unwrap();
    let post: Post = Post::read(raw).unwrap();
    let again = dump_table(&post);
    match again {
        Ok(b) => {
            println!("orig {} again {} equal {}", raw.as_bytes().len(), b.len(), raw.as_bytes() == &b[..]);
            println!("{:?}", &post.glyph_name_index);
            println!("{:?}", &post.string_data);
            let p2: Post = Post::read(b.as_slice().into()).unwrap();
            println!("{:?}", &p2.glyph_name_index);
            println!("{:?}", &p2.string_data);
        }
        Err(e) => println!("dump error {e:?}"),
    }
}
