//! In-process API monitors: `vapi <cmd> ...` (each run inside an rlimited child by the python driver).
use std::{
    collections::{BTreeMap, HashMap, HashSet},
    io::Write,
    panic::{catch_unwind, AssertUnwindSafe},
    path::{Path, PathBuf},
    str::FromStr,
    sync::Arc,
};

use fontdrasil::{
    coords::{NormalizedCoord, NormalizedLocation},
    types::GlyphName,
    variations::{RoundingBehaviour, VariationModel},
};
use serde_json::{json, Value};
use write_fonts::types::Tag;

struct Rng(u64);
impl Rng {
    fn next(&mut self) -> u64 {
        self.0 = self.0.wrapping_add(0x9E37_79B9_7F4A_7C15);
        let mut x = self.0;
        x = (x ^ (x >> 30)).wrapping_mul(0xBF58_476D_1CE4_E5B9);
        x = (x ^ (x >> 27)).wrapping_mul(0x94D0_49BB_1331_11EB);
        x ^ (x >> 31)
    }
    fn below(&mut self, n: usize) -> usize {
        (self.next() % n.max(1) as u64) as usize
    }
    fn unit(&mut self) -> f64 {
        (self.next() >> 11) as f64 / (1u64 << 53) as f64
    }
    fn chance(&mut self, p: f64) -> bool {
        self.unit() < p
    }
    fn pick<'a, T>(&mut self, xs: &'a [T]) -> &'a T {
        &xs[self.below(xs.len())]
    }
}

const AXES: [&str; 4] = ["wght", "wdth", "opsz", "slnt"];
const GRID: [f64; 9] = [-1.0, -0.75, -0.5, -0.25, 0.25, 0.5, 0.75, 1.0, 0.0];

fn loc(tags: &[Tag], c: &[f64]) -> NormalizedLocation {
    tags.iter().zip(c).map(|(t, v)| (*t, NormalizedCoord::new(*v))).collect()
}

/// own implementation of the OpenType region scalar, from (min,peak,max) tents
fn own_scalar(tents: &[(Tag, f64, f64, f64)], tags: &[Tag], c: &[f64]) -> f64 {
    let mut s = 1.0;
    for (tag, lo, pk, hi) in tents {
        let v = tags.iter().position(|t| t == tag).map(|i| c[i]).unwrap_or(0.0);
        if *lo > *pk || *pk > *hi || (*lo < 0.0 && *hi > 0.0) || *pk == 0.0 {
            continue; // invalid or inactive tents contribute 1 per spec
        }
        if v == *pk {
            continue;
        }
        if v <= *lo || v >= *hi {
            return 0.0;
        }
        s *= if v < *pk { (v - lo) / (pk - lo) } else { (hi - v) / (hi - pk) };
    }
    s
}

fn c07(seed: u64, n: usize) -> Value {
    let mut rng = Rng(seed);
    let mut violations: Vec<Value> = vec![];
    let (mut nontrivial, mut regions_seen, mut scalars_checked, mut masters_checked) = (0usize, 0usize, 0usize, 0usize);
    let mut distinct: HashSet<String> = HashSet::new();
    let mut sample = Value::Null;
    for case in 0..n {
        let n_axes = 1 + rng.below(4);
        let tags: Vec<Tag> = AXES[..n_axes].iter().map(|t| Tag::from_str(t).unwrap()).collect();
        // location set: origin + family-dependent others
        let style = rng.below(6);
        let mut pts: Vec<Vec<f64>> = vec![vec![0.0; n_axes]];
        let want = 1 + rng.below(7);
        let one_sided: Vec<bool> = (0..n_axes).map(|_| rng.chance(0.25)).collect();
        let mut guard = 0;
        while pts.len() < want + 1 && guard < 200 {
            guard += 1;
            let mut p = vec![0.0; n_axes];
            match style {
                0 => {
                    // on-axis chain
                    let a = rng.below(n_axes);
                    p[a] = *rng.pick(&GRID[..8]);
                }
                1 => {
                    // corners
                    for v in p.iter_mut() {
                        *v = if rng.chance(0.5) { 1.0 } else { -1.0 };
                        if rng.chance(0.2) {
                            *v = 0.0
                        }
                    }
                }
                2 => {
                    // few distinct coordinates per axis (shared peaks, equal ratios)
                    for v in p.iter_mut() {
                        *v = *rng.pick(&[0.0, 0.5, 1.0, 0.0, -0.5][..]);
                    }
                }
                3 => {
                    for v in p.iter_mut() {
                        *v = *rng.pick(&GRID);
                    }
                }
                4 => {
                    // interior + near duplicates
                    for v in p.iter_mut() {
                        *v = (rng.unit() * 2.0 - 1.0 * 1.0).clamp(-1.0, 1.0);
                        if rng.chance(0.3) {
                            *v = (*v * 16384.0).round() / 16384.0;
                        }
                    }
                    if pts.len() > 1 && rng.chance(0.3) {
                        p = pts[1 + rng.below(pts.len() - 1)].clone();
                        let a = rng.below(n_axes);
                        p[a] = (p[a] + 1.0 / 16384.0).clamp(-1.0, 1.0);
                    }
                }
                _ => {
                    for v in p.iter_mut() {
                        *v = if rng.chance(0.5) { *rng.pick(&GRID) } else { rng.unit() * 2.0 - 1.0 };
                    }
                }
            }
            for (v, os) in p.iter_mut().zip(&one_sided) {
                if *os {
                    *v = v.abs();
                }
            }
            if !pts.contains(&p) {
                pts.push(p);
            }
        }
        if pts.len() < 2 {
            continue;
        }
        // values: K per location
        let k = 1 + rng.below(3);
        let scale = *rng.pick(&[1.0, 10.0, 1000.0, 1e6]);
        let vals: Vec<Vec<f64>> = pts
            .iter()
            .map(|_| {
                (0..k)
                    .map(|_| {
                        let v = (rng.unit() * 2.0 - 1.0) * scale;
                        if rng.chance(0.3) {
                            v.round() + if rng.chance(0.3) { 0.5 } else { 0.0 }
                        } else {
                            v
                        }
                    })
                    .collect()
            })
            .collect();
        let witness = || json!({"axes": &AXES[..n_axes], "locations": pts, "values": vals, "case": case, "seed": seed});
        let run = catch_unwind(AssertUnwindSafe(|| {
            let mut found: Vec<String> = vec![];
            let set: HashSet<NormalizedLocation> = pts.iter().map(|p| loc(&tags, p)).collect();
            let model = VariationModel::new(set, tags.clone());
            // same set, inserted in reverse order into a fresh HashSet (different RandomState too)
            let set2: HashSet<NormalizedLocation> = pts.iter().rev().map(|p| loc(&tags, p)).collect();
            let model2 = VariationModel::new(set2, tags.clone());
            let seqs: HashMap<NormalizedLocation, Vec<f64>> = pts.iter().zip(&vals).map(|(p, v)| (loc(&tags, p), v.clone())).collect();
            let mut regions = 0;
            let mut nonzero = false;
            for (rounding, bound) in [(RoundingBehaviour::None, 0.0), (RoundingBehaviour::RoundTiesEven, 0.5)] {
                let deltas = match model.deltas_with_rounding::<f64, f64>(&seqs, rounding) {
                    Ok(d) => d,
                    Err(e) => {
                        found.push(format!("deltas failed: {e}"));
                        continue;
                    }
                };
                let deltas2 = model2.deltas_with_rounding::<f64, f64>(&seqs, rounding).unwrap_or_default();
                if deltas != deltas2 {
                    found.push("order-dependence: regions/deltas differ when the same location set is supplied in another order".to_string());
                }
                regions = deltas.len();
                for (region, ds) in &deltas {
                    let tents: Vec<(Tag, f64, f64, f64)> = region.iter().map(|(t, te)| (*t, te.min.to_f64(), te.peak.to_f64(), te.max.to_f64())).collect();
                    for (t, lo, pk, hi) in &tents {
                        if !(lo <= pk && pk <= hi) || *lo < -1.0 || *hi > 1.0 || (*lo < 0.0 && *hi > 0.0) {
                            found.push(format!("invalid tent on {t}: ({lo},{pk},{hi})"));
                        }
                    }
                    if ds.iter().any(|d| *d != 0.0) && !region.is_default() {
                        nonzero = true;
                    }
                    // scalars in [0,1] and equal to the spec's formula, at masters and random points
                    for p in pts.iter().chain(std::iter::once(&(0..n_axes).map(|i| ((case * 7 + i * 3) % 17) as f64 / 8.0 - 1.0).collect::<Vec<f64>>())) {
                        let s = region.scalar_at(&loc(&tags, p)).into_inner();
                        let mine = own_scalar(&tents, &tags, p);
                        if !(0.0..=1.0).contains(&s) {
                            found.push(format!("scalar {s} outside [0,1] at {p:?}"));
                        }
                        if (s - mine).abs() > 1e-12 {
                            found.push(format!("scalar_at {s} != spec formula {mine} at {p:?} for tents {tents:?}"));
                        }
                    }
                }
                for (p, v) in pts.iter().zip(&vals) {
                    let got = model.interpolate_from_deltas(&loc(&tags, p), &deltas);
                    let is_default = p.iter().all(|c| *c == 0.0);
                    for (i, want) in v.iter().enumerate() {
                        let g = got.get(i).copied().unwrap_or(0.0);
                        let tol = if bound == 0.0 { 1e-9 * want.abs().max(1.0) * (pts.len() as f64) } else if is_default { 0.5 } else { bound + 1e-9 * want.abs().max(1.0) };
                        // default with rounding: the rounded default value exactly
                        if bound > 0.0 && is_default {
                            // round-half-even of the default value
                            let r = {
                                let f = want.floor();
                                let d = want - f;
                                if d > 0.5 { f + 1.0 } else if d < 0.5 { f } else if f % 2.0 == 0.0 { f } else { f + 1.0 }
                            };
                            if g != r {
                                found.push(format!("default not exact with rounding: got {g}, rounded default {r}"));
                            }
                        } else if bound == 0.0 && is_default {
                            if g != *want {
                                found.push(format!("default not exact: got {g}, want {want}"));
                            }
                        } else if (g - want).abs() > tol {
                            found.push(format!("master {p:?} value[{i}]: reconstructed {g}, master value {want} (bound {tol:e}, rounding {})", bound > 0.0));
                        }
                    }
                }
            }
            (found, regions, nonzero)
        }));
        masters_checked += pts.len() * 2;
        match run {
            Ok((found, regions, nonzero)) => {
                regions_seen += regions;
                scalars_checked += regions * (pts.len() + 1) * 2;
                let interior = pts.iter().any(|p| p.iter().filter(|c| **c != 0.0).count() >= 2 || p.iter().any(|c| c.abs() > 0.0 && c.abs() < 1.0));
                if interior && nonzero {
                    let key = format!("{pts:?}");
                    if distinct.insert(key) {
                        nontrivial += 1;
                    }
                }
                if sample.is_null() && interior {
                    sample = witness();
                }
                for f in found.into_iter().take(3) {
                    violations.push(json!({"what": f, "layout": witness()}));
                }
            }
            Err(_) => violations.push(json!({"what": "panic in VariationModel", "layout": witness()})),
        }
        if violations.len() > 50 {
            break;
        }
    }
    json!({"layouts": n, "nontrivial": nontrivial, "regions": regions_seen, "scalars_checked": scalars_checked, "masters_checked": masters_checked,
           "violations": violations, "sample": sample})
}

// ------------------------------------------------------------------------------------------- C16 (API level)
type Subs = BTreeMap<GlyphName, GlyphName>;

fn c16(seed: u64, n: usize) -> Value {
    use fontir::feature_variations::{overlay_feature_variations, NBox, Region};
    let mut rng = Rng(seed);
    let q = 1.0 / 16384.0;
    let mut violations: Vec<Value> = vec![];
    let (mut points, mut asserted, mut conflicting, mut conflicting_mismatch, mut edge_points, mut edge_mismatch, mut active) = (0usize, 0usize, 0usize, 0usize, 0usize, 0usize, 0usize);
    let mut sample = Value::Null;
    for case in 0..n {
        let n_axes = 1 + rng.below(3);
        let tags: Vec<Tag> = AXES[..n_axes].iter().map(|t| Tag::from_str(t).unwrap()).collect();
        let n_rules = 1 + rng.below(6);
        let glyphs = ["a", "b", "c", "d"];
        // rules: Vec<(Vec<box as Vec<(min,max)> per axis or None>, subs)>
        let mut rules: Vec<(Vec<Vec<Option<(f64, f64)>>>, Subs)> = vec![];
        for r in 0..n_rules {
            let n_sets = 1 + rng.below(3);
            let mut boxes = vec![];
            for _ in 0..n_sets {
                let mut b = vec![];
                for _ in 0..n_axes {
                    if rng.chance(0.3) {
                        b.push(None);
                        continue;
                    }
                    let mut lo = ((rng.below(17) as f64) / 8.0 - 1.0).clamp(-1.0, 1.0);
                    let mut hi = ((rng.below(17) as f64) / 8.0 - 1.0).clamp(-1.0, 1.0);
                    if rng.chance(0.2) {
                        lo = -1.0
                    }
                    if rng.chance(0.2) {
                        hi = 1.0
                    }
                    if lo > hi {
                        std::mem::swap(&mut lo, &mut hi);
                    }
                    if lo == hi {
                        hi = (lo + 0.125).min(1.0);
                        if lo == hi {
                            lo -= 0.125
                        }
                    }
                    b.push(Some((lo, hi)));
                }
                boxes.push(b);
            }
            let mut subs = Subs::new();
            let ns = 1 + rng.below(2);
            for _ in 0..ns {
                let g = *rng.pick(&glyphs);
                // a conflicting target only sometimes: most rule lists stay in the unambiguous domain
                let alt = if rng.chance(0.25) { format!("{g}.alt{}", rng.below(2)) } else { format!("{g}.alt") };
                subs.insert(GlyphName::new(g), GlyphName::new(&alt));
            }
            if rng.chance(0.15) && r > 0 {
                subs = rules[rng.below(r)].1.clone(); // same-substitution rules
            }
            rules.push((boxes, subs));
        }
        let input: Vec<(Region, Subs)> = rules
            .iter()
            .map(|(boxes, subs)| {
                let mut region = Region::default();
                for b in boxes {
                    let mut nb = NBox::default();
                    for (t, r) in tags.iter().zip(b) {
                        if let Some((lo, hi)) = r {
                            nb.insert(*t, Some(NormalizedCoord::new(*lo)), Some(NormalizedCoord::new(*hi)));
                        }
                    }
                    region.push(nb);
                }
                (region, subs.clone())
            })
            .collect();
        let witness = || json!({"axes": &AXES[..n_axes], "case": case, "seed": seed,
            "rules": rules.iter().map(|(b, s)| json!({"boxes": b, "subs": s.iter().map(|(k, v)| (k.to_string(), v.to_string())).collect::<BTreeMap<_, _>>()})).collect::<Vec<_>>()});
        let out = match catch_unwind(AssertUnwindSafe(|| overlay_feature_variations(input))) {
            Ok(o) => o,
            Err(_) => {
                violations.push(json!({"what": "panic in overlay_feature_variations", "rules": witness()}));
                continue;
            }
        };
        let out_boxes: Vec<(Vec<(f64, f64)>, Subs)> = out
            .iter()
            .map(|(nb, list)| {
                let mut b = vec![(-1.0, 1.0); n_axes];
                for (t, (lo, hi)) in nb.iter() {
                    if let Some(i) = tags.iter().position(|x| *x == t) {
                        b[i] = (lo.to_f64(), hi.to_f64());
                    }
                }
                let mut merged = Subs::new();
                for m in list {
                    for (k, v) in m {
                        merged.entry(k.clone()).or_insert_with(|| v.clone());
                    }
                }
                (b, merged)
            })
            .collect();
        // sample points: edges +-2 quanta, centres, extremes, default, random
        let mut coords: Vec<Vec<f64>> = vec![vec![]; n_axes];
        for (boxes, _) in &rules {
            for b in boxes {
                for (i, r) in b.iter().enumerate() {
                    if let Some((lo, hi)) = r {
                        for e in [lo, hi] {
                            for d in [-2.0 * q, 0.0, 2.0 * q] {
                                coords[i].push((e + d).clamp(-1.0, 1.0));
                            }
                        }
                        coords[i].push((lo + hi) / 2.0);
                    }
                }
            }
        }
        for c in coords.iter_mut() {
            c.extend([-1.0, 0.0, 1.0]);
        }
        let mut pts: Vec<Vec<f64>> = vec![];
        for _ in 0..40 {
            pts.push((0..n_axes).map(|i| if rng.chance(0.8) { *rng.pick(&coords[i]) } else { rng.unit() * 2.0 - 1.0 }).collect());
        }
        for p in pts {
            points += 1;
            let inside = |b: &Vec<Option<(f64, f64)>>| b.iter().zip(&p).all(|(r, v)| r.map(|(lo, hi)| *v >= lo && *v <= hi).unwrap_or(true));
            let near_edge = rules.iter().any(|(boxes, _)| boxes.iter().any(|b| b.iter().zip(&p).any(|(r, v)| r.map(|(lo, hi)| (v - lo).abs() <= q || (v - hi).abs() <= q).unwrap_or(false))));
            let mut want = Subs::new();
            let mut conflict = false;
            for (boxes, subs) in &rules {
                if boxes.iter().any(inside) {
                    for (k, v) in subs {
                        match want.get(k) {
                            None => {
                                want.insert(k.clone(), v.clone());
                            }
                            Some(prev) if prev != v => conflict = true,
                            _ => {}
                        }
                    }
                }
            }
            let got = out_boxes.iter().find(|(b, _)| b.iter().zip(&p).all(|((lo, hi), v)| v >= lo && v <= hi)).map(|(_, s)| s.clone()).unwrap_or_default();
            if !want.is_empty() {
                active += 1;
            }
            if near_edge {
                edge_points += 1;
                if got != want {
                    edge_mismatch += 1;
                }
                continue;
            }
            if conflict {
                conflicting += 1;
                if got != want {
                    conflicting_mismatch += 1;
                }
                continue;
            }
            asserted += 1;
            if got != want {
                let f = |s: &Subs| s.iter().map(|(k, v)| format!("{k}->{v}")).collect::<Vec<_>>().join(",");
                violations.push(json!({"what": format!("at {p:?} the source rules give {{{}}} but the overlay gives {{{}}}", f(&want), f(&got)), "point": p, "rules": witness()}));
            }
        }
        if sample.is_null() && n_rules >= 3 {
            sample = witness();
        }
        if violations.len() > 50 {
            break;
        }
    }
    json!({"rule_lists": n, "points": points, "asserted_points": asserted, "points_with_active_rule": active, "conflicting_points": conflicting,
           "conflicting_mismatch": conflicting_mismatch, "edge_points": edge_points, "edge_mismatch": edge_mismatch, "violations": violations, "sample": sample})
}

// ------------------------------------------------------------------------------------------- C13
struct MemResolver(HashMap<PathBuf, Arc<str>>);
impl fea_rs::parse::SourceResolver for MemResolver {
    fn get_contents(&self, path: &Path) -> Result<Arc<str>, fea_rs::parse::SourceLoadError> {
        self.0.get(path).cloned().ok_or_else(|| fea_rs::parse::SourceLoadError::new(path.to_path_buf(), "no such file"))
    }
}

thread_local! {
    static LAST_PANIC: std::cell::RefCell<String> = const { std::cell::RefCell::new(String::new()) };
}

fn last_panic() -> String {
    LAST_PANIC.with(|p| p.borrow().clone())
}

fn c13_one(case: &Value) -> Value {
    let files: HashMap<PathBuf, Arc<str>> = case["files"].as_object().unwrap().iter().map(|(k, v)| (PathBuf::from(k), Arc::from(v.as_str().unwrap()))).collect();
    let root = PathBuf::from(case["root"].as_str().unwrap_or("root.fea"));
    let root_text = files.get(&root).cloned().unwrap_or_else(|| Arc::from(""));
    let glyph_map: Option<fea_rs::GlyphMap> = case["glyphs"].as_array().and_then(|g| fea_rs::GlyphMap::new(g.iter().map(|n| fontdrasil::types::GlyphName::new(n.as_str().unwrap()))).ok());
    let single = files.len() == 1 && !root_text.contains("include");
    let mut problems: Vec<String> = vec![];
    let mut info = json!({});
    let parsed = catch_unwind(AssertUnwindSafe(|| fea_rs::parse::parse_root(root.clone(), glyph_map.as_ref(), Box::new(MemResolver(files.clone())))));
    match parsed {
        Err(p) => {
            let msg = p.downcast_ref::<String>().cloned().or_else(|| p.downcast_ref::<&str>().map(|s| s.to_string())).unwrap_or_default();
            problems.push(format!("parser panicked at {}: {}", last_panic(), msg.chars().take(200).collect::<String>()));
        }
        Ok(Err(e)) => {
            info["load_error"] = json!(e.to_string());
        }
        Ok(Ok((tree, diags))) => {
            let mut ntok = 0usize;
            if single {
                let mut cat = String::with_capacity(root_text.len());
                for t in tree.root().iter_tokens() {
                    cat.push_str(t.text.as_str());
                    ntok += 1;
                }
                if cat != *root_text {
                    let at = cat.bytes().zip(root_text.bytes()).position(|(a, b)| a != b).unwrap_or(cat.len().min(root_text.len()));
                    problems.push(format!("token texts do not concatenate to the input: lengths {} vs {}, first difference at byte {at}", cat.len(), root_text.len()));
                }
            } else {
                ntok = tree.root().iter_tokens().count();
            }
            let check_diags = |ds: &fea_rs::DiagnosticSet, what: &str, problems: &mut Vec<String>| {
                for d in ds.diagnostics() {
                    let r = d.span();
                    match tree.get_source(d.message.file) {
                        Some(src) => {
                            let text = src.text();
                            if r.start > r.end || r.end > text.len() {
                                problems.push(format!("{what} diagnostic range {r:?} outside its source of {} bytes: {}", text.len(), d.text()));
                            } else if !text.is_char_boundary(r.start) || !text.is_char_boundary(r.end) {
                                problems.push(format!("{what} diagnostic range {r:?} not on character boundaries: {}", d.text()));
                            }
                        }
                        None => problems.push(format!("{what} diagnostic refers to an unknown source file")),
                    }
                }
                if catch_unwind(AssertUnwindSafe(|| format!("{}", ds.display()))).is_err() {
                    problems.push(format!("rendering the {what} diagnostics panicked at {}", last_panic()));
                }
            };
            check_diags(&diags, "parse", &mut problems);
            info["tokens"] = json!(ntok);
            info["diagnostics"] = json!(diags.len());
            info["has_errors"] = json!(diags.has_errors());
            let cyc = diags.diagnostics().iter().any(|d| d.text().contains("cyclical") || d.text().contains("depth"));
            info["cycle_reported"] = json!(cyc);
            if let Some(expect) = case["expect_cycle_report"].as_bool() {
                if expect && !cyc {
                    problems.push("cyclic / too deep include graph was not reported".to_string());
                }
            }
            if !diags.has_errors() {
                if let Some(gm) = &glyph_map {
                    match catch_unwind(AssertUnwindSafe(|| fea_rs::compile::validate::<fea_rs::compile::NopVariationInfo>(&tree, gm, None))) {
                        Ok(v) => {
                            check_diags(&v, "validation", &mut problems);
                            info["validation_errors"] = json!(v.has_errors());
                            info["validation_diagnostics"] = json!(v.len());
                            if single && case["split"].as_bool() != Some(false) {
                                let seed = case["split_seed"].as_u64().unwrap_or(case["id"].as_u64().unwrap_or(0));
                                c13_split(&root_text, gm, &tree, &diags, &v, seed, &mut problems, &mut info);
                            }
                        }
                        Err(p) => {
                            let msg = p.downcast_ref::<String>().cloned().or_else(|| p.downcast_ref::<&str>().map(|s| s.to_string())).unwrap_or_default();
                            problems.push(format!("validate panicked on an error-free tree at {}: {}", last_panic(), msg.chars().take(200).collect::<String>()));
                        }
                    }
                }
            }
        }
    }
    json!({"id": case["id"], "problems": problems, "info": info})
}

/// One file of a split plan: the text `flat[start..end]` with every child range replaced by `include(<child>);`
struct Piece {
    name: String,
    start: usize,
    end: usize,
    children: Vec<Piece>,
}

/// (start, end) of the child *nodes* of `node`, whose own text starts at `base` (positions are summed, not taken from the nodes)
fn child_nodes(node: &fea_rs::Node, base: usize) -> Vec<(usize, usize, fea_rs::Kind, &fea_rs::Node)> {
    let mut pos = base;
    let mut out = vec![];
    for c in node.iter_children() {
        let len = c.text_len();
        if let Some(n) = c.as_node() {
            out.push((pos, pos + len, n.kind(), n));
        }
        pos += len;
    }
    out
}

fn render_piece(flat: &str, p: &Piece, files: &mut HashMap<PathBuf, Arc<str>>, segs: &mut Vec<(usize, usize, String, usize)>) {
    let mut text = String::new();
    let mut at = p.start;
    for c in &p.children {
        if c.start > at {
            segs.push((at, c.start, p.name.clone(), text.len()));
        }
        text.push_str(&flat[at..c.start]);
        text.push_str(&format!("include({});", c.name));
        render_piece(flat, c, files, segs);
        at = c.end;
    }
    if p.end > at {
        segs.push((at, p.end, p.name.clone(), text.len()));
    }
    text.push_str(&flat[at..p.end]);
    files.insert(PathBuf::from(&p.name), Arc::from(text.as_str()));
}

/// C13 split route: an error-free single file is cut at statement boundaries into an include graph (top-level statements,
/// runs of statements with a nested include, items of feature blocks). The assembled tree must spell the flat text, and
/// every parse / validation diagnostic of the flat text must come back with the same message at the file and offset
/// that position was moved to.
#[allow(clippy::too_many_arguments)]
fn c13_split(flat: &str, gm: &fea_rs::GlyphMap, tree: &fea_rs::ParseTree, flat_parse: &fea_rs::DiagnosticSet, flat_val: &fea_rs::DiagnosticSet, seed: u64, problems: &mut Vec<String>, info: &mut Value) {
    use fea_rs::Kind;
    if flat.contains("include") {
        return;
    }
    let mut rng = Rng(seed.wrapping_mul(0x9E3779B97F4A7C15) ^ 0xC13);
    rng.next();
    let top = child_nodes(tree.root(), 0);
    if top.is_empty() {
        return;
    }
    let total: usize = tree.root().text_len();
    if total != flat.len() {
        return;
    }
    let mut counter = 0usize;
    let mut fresh = |counter: &mut usize| {
        *counter += 1;
        format!("p{}.fea", *counter)
    };
    let mut root = Piece { name: "root.fea".into(), start: 0, end: flat.len(), children: vec![] };
    let mut feature_splits = 0usize;
    let mut nested = 0usize;
    let mut i = 0usize;
    while i < top.len() {
        let (s, e, kind, node) = top[i];
        let r = rng.unit();
        if r < 0.35 {
            // the statement alone in its own file: the file starts with the statement's first byte
            root.children.push(Piece { name: fresh(&mut counter), start: s, end: e, children: vec![] });
            i += 1;
        } else if r < 0.5 && i + 2 < top.len() {
            // a run of statements (with the trivia between them) in one file, one inner statement included from a third file
            let j = (i + 2 + rng.below(3)).min(top.len() - 1);
            let inner = i + 1 + rng.below(j - i - 1 + 1).min(j - i - 1);
            let inner = inner.clamp(i, j);
            let mut p = Piece { name: fresh(&mut counter), start: s, end: top[j].1, children: vec![] };
            p.children.push(Piece { name: fresh(&mut counter), start: top[inner].0, end: top[inner].1, children: vec![] });
            nested += 1;
            root.children.push(p);
            i = j + 1;
        } else if r < 0.75 && kind == Kind::FeatureNode {
            // items of a feature block (an included file in feature scope is parsed by the same item loop as the block itself)
            for (cs, ce, _, _) in child_nodes(node, s) {
                if rng.chance(0.4) {
                    root.children.push(Piece { name: fresh(&mut counter), start: cs, end: ce, children: vec![] });
                    feature_splits += 1;
                }
            }
            i += 1;
        } else {
            i += 1;
        }
    }
    if root.children.is_empty() {
        let (s, e, _, _) = top[rng.below(top.len())];
        root.children.push(Piece { name: fresh(&mut counter), start: s, end: e, children: vec![] });
    }
    let mut files = HashMap::new();
    let mut segs: Vec<(usize, usize, String, usize)> = vec![];
    render_piece(flat, &root, &mut files, &mut segs);
    info["split_files"] = json!(files.len());
    info["split_feature_items"] = json!(feature_splits);
    info["split_nested"] = json!(nested);
    let describe = |files: &HashMap<PathBuf, Arc<str>>| -> String {
        let mut names: Vec<_> = files.keys().map(|k| k.display().to_string()).collect();
        names.sort();
        names.join(",")
    };
    let parsed = catch_unwind(AssertUnwindSafe(|| fea_rs::parse::parse_root(PathBuf::from("root.fea"), Some(gm), Box::new(MemResolver(files.clone())))));
    let (stree, sdiags) = match parsed {
        Err(_) => {
            problems.push(format!("split route: parser panicked at {} on the include graph [{}] of an error-free file", last_panic(), describe(&files)));
            info["split_files_text"] = json!(files.iter().map(|(k, v)| (k.display().to_string(), v.to_string())).collect::<HashMap<_, _>>());
            return;
        }
        Ok(Err(e)) => {
            problems.push(format!("split route: include graph of an error-free file does not load: {e}"));
            return;
        }
        Ok(Ok(x)) => x,
    };
    let mut bad = false;
    let mut cat = String::with_capacity(flat.len());
    for t in stree.root().iter_tokens() {
        cat.push_str(t.text.as_str());
    }
    if cat != flat {
        let at = cat.bytes().zip(flat.bytes()).position(|(a, b)| a != b).unwrap_or(cat.len().min(flat.len()));
        problems.push(format!("split route: the tree assembled from the include graph does not spell the flat text: lengths {} vs {}, first difference at byte {at}", cat.len(), flat.len()));
        bad = true;
    }
    // where a flat position went
    let locate = |a: usize| -> Option<(String, usize)> { segs.iter().find(|(s, e, _, _)| *s <= a && a < *e).map(|(s, _, f, off)| (f.clone(), off + (a - s))) };
    let key_flat = |ds: &fea_rs::DiagnosticSet| -> Vec<(String, String, usize, usize)> {
        let mut v: Vec<_> = ds
            .diagnostics()
            .iter()
            .filter_map(|d| {
                let r = d.span();
                let (f, off) = locate(r.start).or_else(|| if r.start == flat.len() { Some(("root.fea".to_string(), files[&PathBuf::from("root.fea")].len())) } else { None })?;
                Some((d.text().to_string(), f, off, r.end - r.start))
            })
            .collect();
        v.sort();
        v
    };
    let key_split = |ds: &fea_rs::DiagnosticSet, tree: &fea_rs::ParseTree| -> Vec<(String, String, usize, usize)> {
        let mut v: Vec<_> = ds
            .diagnostics()
            .iter()
            .map(|d| {
                let r = d.span();
                let f = tree.get_source(d.message.file).map(|s| s.path().display().to_string()).unwrap_or_else(|| "?".into());
                (d.text().to_string(), f, r.start, r.end - r.start)
            })
            .collect();
        v.sort();
        v
    };
    let mut compare = |what: &str, flat_ds: &fea_rs::DiagnosticSet, split_ds: &fea_rs::DiagnosticSet, problems: &mut Vec<String>| {
        for d in split_ds.diagnostics() {
            let r = d.span();
            match stree.get_source(d.message.file) {
                Some(src) => {
                    let text = src.text();
                    if r.start > r.end || r.end > text.len() {
                        problems.push(format!("split route: {what} diagnostic range {r:?} outside its source {} of {} bytes: {}", src.path().display(), text.len(), d.text()));
                    } else if !text.is_char_boundary(r.start) || !text.is_char_boundary(r.end) {
                        problems.push(format!("split route: {what} diagnostic range {r:?} not on character boundaries in {}: {}", src.path().display(), d.text()));
                    }
                }
                None => problems.push(format!("split route: {what} diagnostic refers to an unknown source file")),
            }
        }
        let a = key_flat(flat_ds);
        let b = key_split(split_ds, &stree);
        if a.len() == flat_ds.len() && a != b {
            let only_flat: Vec<_> = a.iter().filter(|x| !b.contains(x)).take(2).collect();
            let only_split: Vec<_> = b.iter().filter(|x| !a.contains(x)).take(2).collect();
            problems.push(format!("split route: {what} diagnostics of the include graph differ from the flat file's (message, file, offset, length): expected {only_flat:?}, got {only_split:?}"));
        }
        if catch_unwind(AssertUnwindSafe(|| format!("{}", split_ds.display()))).is_err() {
            problems.push(format!("split route: rendering the {what} diagnostics panicked at {}", last_panic()));
        }
    };
    let before = problems.len();
    compare("parse", flat_parse, &sdiags, problems);
    if !sdiags.has_errors() {
        match catch_unwind(AssertUnwindSafe(|| fea_rs::compile::validate::<fea_rs::compile::NopVariationInfo>(&stree, gm, None))) {
            Ok(v) => {
                compare("validation", flat_val, &v, problems);
                info["split_validation_diagnostics"] = json!(v.len());
                let at_start = v.diagnostics().iter().filter(|d| d.span().start == 0 && stree.get_source(d.message.file).map(|s| s.path() != Path::new("root.fea")).unwrap_or(false)).count();
                info["split_diagnostics_at_file_start"] = json!(at_start);
            }
            Err(_) => problems.push(format!("split route: validate panicked at {} on the include graph of a file that validates flat", last_panic())),
        }
    }
    if bad || problems.len() > before {
        info["split_files_text"] = json!(files.iter().map(|(k, v)| (k.display().to_string(), v.to_string())).collect::<HashMap<_, _>>());
    }
}

fn c13(inputs: &str, journal: &str, out: &str, start: usize) {
    // silence panic messages: they are reported through the result (with their location)
    std::panic::set_hook(Box::new(|info| {
        let loc = info.location().map(|l| format!("{}:{}", l.file().rsplit("/repo/").next().unwrap_or(l.file()), l.line())).unwrap_or_default();
        LAST_PANIC.with(|p| *p.borrow_mut() = loc);
    }));
    let text = std::fs::read_to_string(inputs).unwrap();
    let mut outf = std::fs::OpenOptions::new().create(true).append(true).open(out).unwrap();
    for (i, line) in text.lines().enumerate().skip(start) {
        let case: Value = match serde_json::from_str(line) {
            Ok(c) => c,
            Err(_) => continue,
        };
        std::fs::write(journal, format!("{i}")).unwrap();
        let r = c13_one(&case);
        writeln!(outf, "{r}").unwrap();
    }
    std::fs::write(journal, "done").unwrap();
}

/// C20: compile through the library entry points. route = lib (Input::new on a path) | mem (Input::from_glyphs on the text)
fn c20(route: &str, source: &str, out: &str) -> i32 {
    let input = match route {
        "lib" => match fontc::Input::new(Path::new(source)) {
            Ok(i) => i,
            Err(e) => {
                eprintln!("input error: {e}");
                return 1;
            }
        },
        "mem" => match std::fs::read_to_string(source) {
            Ok(text) => fontc::Input::from_glyphs(text),
            Err(e) => {
                eprintln!("read error: {e}");
                return 1;
            }
        },
        _ => return 2,
    };
    let src = match input.create_source() {
        Ok(s) => s,
        Err(e) => {
            eprintln!("source error: {e}");
            return 1;
        }
    };
    match fontc::generate_font(src, fontc::Options::default()) {
        Ok(bytes) => {
            std::fs::write(out, bytes).unwrap();
            0
        }
        Err(e) => {
            eprintln!("compile error: {e}");
            1
        }
    }
}

// ------------------------------------------------------------------------------------------- C11
/// `c11 <in.json> <out.jsonl>`: compile each program with fea_rs::Compiler (in-memory resolver) and apply the
/// compiled GSUB/GPOS to the given strings with the independent interpreter in eval/otl.rs.
fn c11(input: &str, output: &str) {
    use vharness::eval::otl;
    std::panic::set_hook(Box::new(|info| {
        let loc = info.location().map(|l| format!("{}:{}", l.file().rsplit("/repo/").next().unwrap_or(l.file()), l.line())).unwrap_or_default();
        LAST_PANIC.with(|p| *p.borrow_mut() = loc);
    }));
    let data: Value = serde_json::from_slice(&std::fs::read(input).unwrap()).unwrap();
    let mut out = std::io::BufWriter::new(std::fs::File::create(output).unwrap());
    for prog in data["programs"].as_array().unwrap() {
        let id = prog["id"].clone();
        let names: Vec<String> = prog["glyphs"].as_array().unwrap().iter().map(|g| g.as_str().unwrap().to_string()).collect();
        let glyph_map = fea_rs::GlyphMap::new(names.iter().map(|n| GlyphName::new(n.as_str()))).unwrap();
        let fea: Arc<str> = Arc::from(prog["fea"].as_str().unwrap());
        let mut files = HashMap::new();
        files.insert(PathBuf::from("root.fea"), fea);
        let compiled = catch_unwind(AssertUnwindSafe(|| {
            fea_rs::Compiler::<fea_rs::compile::NopFeatureProvider, fea_rs::compile::NopVariationInfo>::new("root.fea", &glyph_map)
                .with_resolver(MemResolver(files))
                .compile_binary()
        }));
        let bytes = match compiled {
            Err(_) => {
                writeln!(out, "{}", json!({"id": id, "ok": false, "panic": last_panic()})).unwrap();
                continue;
            }
            Ok(Err(e)) => {
                let msg = match &e {
                    fea_rs::compile::error::CompilerError::ParseFail(d) | fea_rs::compile::error::CompilerError::ValidationFail(d) | fea_rs::compile::error::CompilerError::CompilationFail(d) => d.display().to_string(),
                    other => other.to_string(),
                };
                writeln!(out, "{}", json!({"id": id, "ok": false, "error": msg.chars().take(600).collect::<String>()})).unwrap();
                continue;
            }
            Ok(Ok(b)) => b,
        };
        let font = match write_fonts::read::FontRef::new(&bytes) {
            Ok(f) => f,
            Err(e) => {
                writeln!(out, "{}", json!({"id": id, "ok": false, "decode": e.to_string()})).unwrap();
                continue;
            }
        };
        let shaper = match otl::shaper_for(&font, &[]) {
            Ok(s) => s,
            Err(e) => {
                writeln!(out, "{}", json!({"id": id, "ok": false, "decode": e})).unwrap();
                continue;
            }
        };
        if std::env::var("C11_DEBUG").is_ok() {
            for (t, l) in [("GSUB", &shaper.gsub), ("GPOS", &shaper.gpos)] {
                if let Some(l) = l {
                    eprintln!("{t} scripts {:?}", l.scripts);
                    for (i, f) in l.features.iter().enumerate() {
                        eprintln!("{t} feature {i} {f:?}");
                    }
                    for (i, lk) in l.lookups.iter().enumerate() {
                        eprintln!("{t} lookup {i} {lk:?}");
                    }
                }
            }
            eprintln!("GDEF {:?}", shaper.gdef);
        }
        let gid: HashMap<&str, u16> = names.iter().enumerate().map(|(i, n)| (n.as_str(), i as u16)).collect();
        let strings: Vec<Vec<u16>> = prog["strings"].as_array().unwrap().iter().map(|s| s.as_array().unwrap().iter().map(|g| gid[g.as_str().unwrap()]).collect()).collect();
        // systems: the requested ones plus every one the font registers
        let mut systems: Vec<(String, String)> = prog["systems"].as_array().unwrap().iter().map(|s| (s[0].as_str().unwrap().to_string(), s[1].as_str().unwrap().to_string())).collect();
        let mut font_systems = vec![];
        let mut tags: std::collections::BTreeSet<String> = Default::default();
        for (tname, layout) in [("GSUB", &shaper.gsub), ("GPOS", &shaper.gpos)] {
            if let Some(l) = layout {
                for (s, langs) in &l.scripts {
                    for lang in langs.keys() {
                        font_systems.push(json!([tname, s, lang]));
                        if !systems.contains(&(s.clone(), lang.clone())) {
                            systems.push((s.clone(), lang.clone()));
                        }
                    }
                }
                for f in &l.features {
                    tags.insert(f.tag.clone());
                }
            }
        }
        let mut results = serde_json::Map::new();
        let mut attachments = serde_json::Map::new();
        let mut modes: Vec<Option<String>> = vec![None];
        modes.extend(tags.iter().map(|t| Some(t.clone())));
        let alts = prog["alts"].as_u64().unwrap_or(1) as usize;
        for (script, lang) in &systems {
            for mode in &modes {
                for alt in 1..=alts {
                    let only_owned: Vec<&str> = mode.iter().map(|s| s.as_str()).collect();
                    let only = mode.as_ref().map(|_| &only_owned[..]);
                    let sh = otl::Shaper { alt_index: alt, ..clone_shaper(&shaper) };
                    let gs = sh.gsub.as_ref().map(|l| sh.active_lookups(l, script, lang, only)).unwrap_or_default();
                    let gp = sh.gpos.as_ref().map(|l| sh.active_lookups(l, script, lang, only)).unwrap_or_default();
                    let mut res = vec![];
                    for s in &strings {
                        let mut buf = s.clone();
                        sh.apply_gsub(&mut buf, &gs);
                        let mut pos = vec![otl::Pos::default(); buf.len()];
                        sh.apply_gpos(&mut buf, &mut pos, &gp);
                        let g: Vec<&str> = buf.iter().map(|g| names.get(*g as usize).map(|s| s.as_str()).unwrap_or("?")).collect();
                        let p: Vec<String> = pos.iter().map(|p| format!("{},{},{},{}", p.xp, p.yp, p.xa, p.ya)).collect();
                        res.push(format!("{}|{}", g.join(" "), p.join(";")));
                    }
                    results.insert(format!("{script}/{lang}|{}|{alt}", mode.clone().unwrap_or_else(|| "*".into())), json!(res));
                    if alt == 1 {
                        // mark attachment, queried at table level for the requested (base, mark, component) triples
                        let mut att = vec![];
                        for t in prog["pairs"].as_array().cloned().unwrap_or_default() {
                            let (b, m) = (gid[t[0].as_str().unwrap()], gid[t[1].as_str().unwrap()]);
                            let comp = t[2].as_u64().map(|c| c as usize);
                            let got = sh.mark_attachments(&gp, b, m, comp);
                            att.push(got.iter().map(|(_, k, ba, ma)| format!("{k}:{},{},{},{}", ba.0, ba.1, ma.0, ma.1)).collect::<Vec<_>>().join(";"));
                        }
                        attachments.insert(format!("{script}/{lang}|{}", mode.clone().unwrap_or_else(|| "*".into())), json!(att));
                    }
                }
            }
        }
        let n_lookups = json!([shaper.gsub.as_ref().map(|l| l.lookups.len()).unwrap_or(0), shaper.gpos.as_ref().map(|l| l.lookups.len()).unwrap_or(0)]);
        writeln!(out, "{}", json!({"id": id, "ok": true, "font_systems": font_systems, "tags": tags, "results": results, "attachments": attachments, "lookups": n_lookups, "unsupported": *shaper.unsupported.borrow()})).unwrap();
    }
    out.flush().unwrap();
}

fn clone_shaper(s: &vharness::eval::otl::Shaper) -> vharness::eval::otl::Shaper {
    vharness::eval::otl::Shaper {
        gsub: s.gsub.clone(),
        gpos: s.gpos.clone(),
        gdef: s.gdef.clone(),
        ivs: None,
        coords: vec![],
        alt_index: 1,
        fractional_seen: Default::default(),
        unsupported: Default::default(),
    }
}

// ------------------------------------------------------------------------------------------- C08 (API level)
/// Random strictly increasing user->design maps through `fontdrasil::coords::CoordConverter`: every conversion is
/// compared with an own piecewise-linear model, round trips must return to the start, normalization must hit -1/0/+1
/// at min/default/max and be monotonic.
fn c08(seed: u64, n: usize) -> Value {
    use fontdrasil::coords::{CoordConverter, DesignCoord, NormalizedCoord, UserCoord};
    let mut rng = Rng(seed);
    let mut violations: Vec<Value> = vec![];
    let (mut maps, mut points, mut nontrivial) = (0usize, 0usize, 0usize);
    fn pl(m: &[(f64, f64)], x: f64) -> f64 {
        if x <= m[0].0 {
            // extrapolate along the first segment? fontTools' piecewiseLinearMap offsets by the end difference
            return x + (m[0].1 - m[0].0);
        }
        for w in m.windows(2) {
            if x <= w[1].0 {
                return w[0].1 + (w[1].1 - w[0].1) * (x - w[0].0) / (w[1].0 - w[0].0);
            }
        }
        let l = m[m.len() - 1];
        x + (l.1 - l.0)
    }
    for case in 0..n {
        let k = 2 + rng.below(6);
        let mut u = -100.0 + rng.unit() * 200.0;
        let mut d = -50.0 + rng.unit() * 400.0;
        let mut m: Vec<(f64, f64)> = vec![];
        for _ in 0..k {
            m.push((u, d));
            u += [0.5, 1.0, 7.0, 50.0, 300.0][rng.below(5)] * (0.2 + rng.unit());
            d += [0.05, 1.0, 3.0, 40.0, 500.0][rng.below(5)] * (0.2 + rng.unit());
            if rng.chance(0.3) {
                u = u.round();
                d = d.round();
                if let Some(l) = m.last() {
                    if u <= l.0 { u = l.0 + 1.0; }
                    if d <= l.1 { d = l.1 + 1.0; }
                }
            }
        }
        let di = rng.below(m.len());
        let conv = match catch_unwind(AssertUnwindSafe(|| CoordConverter::new(m.iter().map(|(a, b)| (UserCoord::new(*a), DesignCoord::new(*b))).collect(), di))) {
            Ok(Ok(c)) => c,
            Ok(Err(e)) => {
                violations.push(json!({"what": format!("CoordConverter::new rejected a strictly increasing map: {e}"), "map": m, "default": di, "case": case}));
                continue;
            }
            Err(_) => {
                violations.push(json!({"what": format!("CoordConverter::new panicked at {}", last_panic()), "map": m, "default": di, "case": case}));
                continue;
            }
        };
        maps += 1;
        if m.iter().any(|(a, b)| (a - b).abs() > 1e-9) {
            nontrivial += 1;
        }
        let (dmin, ddef, dmax) = (m[0].1, m[di].1, m[m.len() - 1].1);
        let norm = |x: f64| -> f64 {
            if x < ddef { if ddef == dmin { 0.0 } else { -(ddef - x) / (ddef - dmin) } } else if x > ddef { if dmax == ddef { 0.0 } else { (x - ddef) / (dmax - ddef) } } else { 0.0 }
        };
        let inv: Vec<(f64, f64)> = m.iter().map(|(a, b)| (*b, *a)).collect();
        // sample user coordinates: nodes, midpoints, just inside the ends
        let mut us: Vec<f64> = m.iter().map(|p| p.0).collect();
        for w in m.windows(2) {
            us.push((w[0].0 + w[1].0) / 2.0);
            us.push(w[0].0 + (w[1].0 - w[0].0) * 0.137);
        }
        let mut prev_n = f64::NEG_INFINITY;
        let mut sorted = us.clone();
        sorted.sort_by(|a, b| a.total_cmp(b));
        for &x in &sorted {
            points += 1;
            let uc = UserCoord::new(x);
            let dc = uc.to_design(&conv);
            let nc = uc.to_normalized(&conv);
            let want_d = pl(&m, x);
            let tol = 1e-9 * (1.0 + want_d.abs() + x.abs());
            let mut bad = |what: String| {
                if violations.len() < 20 {
                    violations.push(json!({"what": what, "map": m, "default": di, "case": case}));
                }
            };
            if (dc.to_f64() - want_d).abs() > tol {
                bad(format!("user {x} -> design {} but the map gives {want_d}", dc.to_f64()));
            }
            let want_n = norm(want_d);
            if (nc.to_f64() - want_n).abs() > 1e-9 {
                bad(format!("user {x} -> normalized {} but min/default/max normalization of design {want_d} gives {want_n}", nc.to_f64()));
            }
            if nc.to_f64() < prev_n - 1e-12 {
                bad(format!("normalization is not monotonic at user {x}: {} after {prev_n}", nc.to_f64()));
            }
            prev_n = nc.to_f64();
            // round trips
            let back_u = dc.to_user(&conv).to_f64();
            if (back_u - x).abs() > 1e-7 * (1.0 + x.abs()) {
                bad(format!("user {x} -> design {} -> user {back_u}", dc.to_f64()));
            }
            let back_d = NormalizedCoord::new(nc.to_f64()).to_design(&conv).to_f64();
            if (back_d - want_d).abs() > 1e-7 * (1.0 + want_d.abs()) && dmin != dmax {
                bad(format!("design {want_d} -> normalized {} -> design {back_d}", nc.to_f64()));
            }
            let _ = pl(&inv, want_d);
        }
        // the three anchors
        for (x, want) in [(m[0].0, if di == 0 { 0.0 } else { -1.0 }), (m[di].0, 0.0), (m[m.len() - 1].0, if di == m.len() - 1 { 0.0 } else { 1.0 })] {
            let got = UserCoord::new(x).to_normalized(&conv).to_f64();
            if got != want {
                if violations.len() < 20 {
                    violations.push(json!({"what": format!("user {x} must normalize to exactly {want}, got {got}"), "map": m, "default": di, "case": case}));
                }
            }
        }
    }
    json!({"maps": maps, "points": points, "nontrivial": nontrivial, "violations": violations})
}

fn main() {
    let args: Vec<String> = std::env::args().collect();
    let num = |i: usize, d: u64| args.get(i).and_then(|s| s.parse::<u64>().ok()).unwrap_or(d);
    match args.get(1).map(|s| s.as_str()).unwrap_or("") {
        "c07" => println!("{}", c07(num(2, 1), num(3, 1000) as usize)),
        "c16" => println!("{}", c16(num(2, 1), num(3, 1000) as usize)),
        "c08" => println!("{}", c08(num(2, 1), num(3, 1000) as usize)),
        "c20" => std::process::exit(c20(&args[2], &args[3], &args[4])),
        "c13" => c13(&args[2], &args[3], &args[4], num(5, 0) as usize),
        "c11" => c11(&args[2], &args[3]),
        _ => {
            eprintln!("usage: vapi c07|c16 <seed> <n> | c13 <inputs.jsonl> <journal> <out.jsonl> [start]");
            std::process::exit(2);
        }
    }
}
