//! Font oracles: `voracle <cmd> [args]`; prints one JSON object per evaluated font on stdout.
use std::io::Write;

use serde_json::json;
use vharness::eval;

fn main() {
    let args: Vec<String> = std::env::args().collect();
    let cmd = args.get(1).map(|s| s.as_str()).unwrap_or("");
    let out = std::io::stdout();
    let mut out = out.lock();
    match cmd {
        // c05 <font>... : container + cross-table consistency
        "c05" => {
            for p in &args[2..] {
                let v = match std::fs::read(p) {
                    Ok(data) => {
                        let r = std::panic::catch_unwind(|| eval::xref::check(&data));
                        match r {
                            Ok(rep) => json!({"font": p, "errors": rep.errors, "tables": rep.tables, "nodes": rep.nodes_walked,
                                "num_glyphs": rep.num_glyphs, "glyph_ids_checked": rep.glyph_ids_checked, "name_ids_checked": rep.name_ids_checked,
                                "indices_checked": rep.indices_checked, "composites": rep.composites, "max_depth": rep.max_depth}),
                            Err(_) => json!({"font": p, "errors": ["oracle panicked while walking the font"], "tables": []}),
                        }
                    }
                    Err(e) => json!({"font": p, "io_error": e.to_string()}),
                };
                writeln!(out, "{v}").unwrap();
            }
        }
        // c12 <manifest> <locations.json> <reference font> (<label> <font>)... : resolved outlines equal across option sets
        "c12" => {
            let man: serde_json::Value = serde_json::from_slice(&std::fs::read(&args[2]).unwrap()).unwrap();
            let locs: Vec<Vec<f64>> = serde_json::from_slice(&std::fs::read(&args[3]).unwrap()).unwrap_or_default();
            let reference = std::fs::read(&args[4]).unwrap();
            let mut others = vec![];
            let mut i = 5;
            while i + 1 < args.len() {
                if let Ok(d) = std::fs::read(&args[i + 1]) {
                    others.push((args[i].clone(), d));
                }
                i += 2;
            }
            let v = std::panic::catch_unwind(|| eval::draw::check(&man, &reference, &others, &locs)).unwrap_or_else(|_| json!({"oracle_panicked": true}));
            writeln!(out, "{v}").unwrap();
        }
        // c17 <font>... : summary fields recomputed from the tables
        "c17" => {
            // a font path prefixed with "noranges:" comes from a source that sets its Unicode ranges explicitly
            for p in &args[2..] {
                let (p, ranges) = match p.strip_prefix("noranges:") {
                    Some(rest) => (&rest.to_string(), false),
                    None => (p, true),
                };
                let v = match std::fs::read(p) {
                    Ok(data) => match std::panic::catch_unwind(|| eval::summary::check(&data, ranges)) {
                        Ok(rep) => json!({"font": p, "errors": rep.errors, "fields_checked": rep.fields_checked, "nontrivial": rep.nontrivial}),
                        Err(_) => json!({"font": p, "oracle_panicked": true}),
                    },
                    Err(e) => json!({"font": p, "io_error": e.to_string()}),
                };
                writeln!(out, "{v}").unwrap();
            }
        }
        // src <manifest.json> <font> [fontc options...] : manifest-based oracles (C03 C04 C06 C08)
        "src" => {
            let man: serde_json::Value = serde_json::from_slice(&std::fs::read(&args[2]).unwrap()).unwrap();
            let data = std::fs::read(&args[3]).unwrap();
            let opts: Vec<String> = args[4..].to_vec();
            let r = std::panic::catch_unwind(|| eval::src::to_json(&eval::src::check(&data, &man, &opts)));
            let v = match r {
                Ok(mut v) => {
                    v["font"] = json!(args[3]);
                    v
                }
                Err(_) => json!({"font": args[3], "oracle_panicked": true}),
            };
            writeln!(out, "{v}").unwrap();
        }
        // dump <font> : decoded layout tables (debugging aid)
        "dump" => {
            let data = std::fs::read(&args[2]).unwrap();
            let font = write_fonts::read::FontRef::new(&data).unwrap();
            let sh = eval::otl::shaper_for(&font, &[]).unwrap();
            for (t, l) in [("GSUB", &sh.gsub), ("GPOS", &sh.gpos)] {
                if let Some(l) = l {
                    println!("{t} scripts {:?}", l.scripts);
                    for (i, f) in l.features.iter().enumerate() {
                        println!("{t} feature {i} {} lookups {:?}", f.tag, f.lookups);
                    }
                    for (i, lk) in l.lookups.iter().enumerate() {
                        println!("{t} lookup {i} {lk:?}");
                    }
                    for (i, r) in l.fvars.iter().enumerate() {
                        println!("{t} featurevariation {i} {r:?}");
                    }
                }
            }
        }
        // names <font> : name records and every reference to a name id (debugging aid)
        "names" => {
            let data = std::fs::read(&args[2]).unwrap();
            let font = write_fonts::read::FontRef::new(&data).unwrap();
            for (id, v) in eval::names::name_table(&font) {
                println!("name {id} {v:?}");
            }
            for (what, id, allowed) in eval::names::references(&font).unwrap() {
                println!("ref {what} -> {id} (reserved allowed: {allowed:?})");
            }
        }
        // c16 <manifest.json> <font> : designspace rules vs compiled FeatureVariations
        "c16" => {
            let man: serde_json::Value = serde_json::from_slice(&std::fs::read(&args[2]).unwrap()).unwrap();
            let data = std::fs::read(&args[3]).unwrap();
            let v = std::panic::catch_unwind(|| eval::rules::check(&man, &data)).unwrap_or_else(|_| json!({"oracle_panicked": true}));
            writeln!(out, "{v}").unwrap();
        }
        _ => {
            eprintln!("usage: voracle c05 <font>... | src <manifest> <font> [opts]");
            std::process::exit(2);
        }
    }
}
