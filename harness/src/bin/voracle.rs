fn main() {}
