//! C16 end to end: designspace <rules> (from the manifest) against the compiled FeatureVariations, evaluated by otl.rs.
use std::collections::{BTreeMap, HashMap};

use serde_json::{json, Value};
use write_fonts::read::{FontRef, TableProvider};

use super::otl;
use super::src::{axes_of, expected_order, f};
use super::vf::q14;

const Q: f64 = 1.0 / 16384.0;

pub fn check(man: &Value, data: &[u8]) -> Value {
    let mut violations: Vec<String> = vec![];
    let mut stats: BTreeMap<&str, f64> = BTreeMap::new();
    let Ok(font) = FontRef::new(data) else { return json!({"violations": ["font unreadable"], "stats": {}}) };
    let axes = axes_of(man);
    let bracket = man["bracket"].as_bool() == Some(true);
    let mut order = expected_order(man);
    let ng = font.maxp().map(|m| m.num_glyphs() as usize).unwrap_or(0);
    if ng < order.len() {
        return json!({"violations": [format!("font has {ng} glyphs, source {}", order.len())], "stats": {}});
    }
    if bracket {
        // Glyphs bracket layers become extra glyphs the source does not name: glyph identities come from the post
        // table (the font is compiled without production names; C06 checks names against ids on its own)
        let names = super::src::post_names(&font, ng as u32);
        for n in &order {
            if !names.contains(n) {
                return json!({"violations": [format!("source glyph '{n}' is not in the font's post table")], "stats": {}});
            }
        }
        order = names;
    }
    // what an alternate looks like: the point set of its default-master layer (the rules families draw with lines)
    let default_master = man["masters"].as_array().and_then(|m| m.first()).and_then(|m| m["name"].as_str()).unwrap_or("").to_string();
    let layer_points = |name: &str| -> Option<Vec<(i32, i32)>> {
        let g = man["glyphs"].as_array()?.iter().find(|g| g["name"].as_str() == Some(name))?;
        let mut pts: Vec<(i32, i32)> = g["layers"][&default_master]["contours"].as_array()?.iter().flat_map(|c| c.as_array().cloned().unwrap_or_default()).map(|p| (super::src::ot_round(f(&p[0])) as i32, super::src::ot_round(f(&p[1])) as i32)).collect();
        pts.sort();
        Some(pts)
    };
    let gid_of: HashMap<&str, u16> = order.iter().enumerate().map(|(i, n)| (n.as_str(), i as u16)).collect();
    let hvar = font.hvar().ok();
    let hvar_ivs = hvar.as_ref().and_then(|h| h.item_variation_store().ok()).and_then(|s| super::vf::Ivs::new(&s).ok());
    let mut advance_checked: std::collections::HashSet<(u16, String)> = Default::default();
    let rules = man["rules"]["rules"].as_array().cloned().unwrap_or_default();
    let tag = if man["rules"]["processing"].as_str() == Some("last") { "rclt" } else { "rvrn" };
    // source boxes in normalized space: rule -> condition sets -> per axis (lo, hi)
    let mut boxes: Vec<Vec<Vec<(f64, f64)>>> = vec![];
    for r in &rules {
        let mut sets = vec![];
        for cs in r["sets"].as_array().cloned().unwrap_or_default() {
            let mut b = vec![(-1.0f64, 1.0f64); axes.len()];
            for c in cs.as_array().cloned().unwrap_or_default() {
                let Some(ai) = axes.iter().position(|a| Some(a.tag.as_str()) == c["tag"].as_str()) else {
                    // a condition on an axis that does not vary (a point axis, not in fvar): the font sits at that axis' one
                    // design position, so the condition holds everywhere or nowhere
                    if let Some(pa) = man["axes"].as_array().and_then(|l| l.iter().find(|a| a["tag"] == c["tag"])) {
                        let pos = pa["map"].as_array().and_then(|m| m.first()).map(|m| f(&m[1])).unwrap_or(f(&pa["default"]));
                        if (!c["min"].is_null() && pos < f(&c["min"])) || (!c["max"].is_null() && pos > f(&c["max"])) {
                            if let Some(first) = b.first_mut() {
                                *first = (2.0, -2.0);
                            }
                            *stats.entry("point_axis_conditions_excluding").or_default() += 1.0;
                        } else {
                            *stats.entry("point_axis_conditions_including").or_default() += 1.0;
                        }
                    }
                    continue;
                };
                let lo = if c["min"].is_null() { -1.0 } else { axes[ai].normalize_design(f(&c["min"]) as f32 as f64) };
                let hi = if c["max"].is_null() { 1.0 } else { axes[ai].normalize_design(f(&c["max"]) as f32 as f64) };
                b[ai] = (b[ai].0.max(lo), b[ai].1.min(hi));
            }
            sets.push(b);
        }
        boxes.push(sets);
    }
    // sample coordinates per axis
    let mut per_axis: Vec<Vec<f64>> = vec![];
    for ai in 0..axes.len() {
        let mut v = vec![-1.0, 0.0, 1.0];
        for sets in &boxes {
            for b in sets {
                let (lo, hi) = b[ai];
                for e in [lo, hi] {
                    for k in [-2.0, -1.0, 0.0, 1.0, 2.0] {
                        v.push(q14(e) + k * Q);
                    }
                }
                v.push(q14((lo + hi) / 2.0));
            }
        }
        // only locations the font can be set to: a one-sided axis (min or max equal to its default) has no other half
        let reach_lo = if axes[ai].min < axes[ai].default { -1.0 } else { 0.0 };
        let reach_hi = if axes[ai].max > axes[ai].default { 1.0 } else { 0.0 };
        let mut v: Vec<f64> = v.into_iter().filter(|x| (reach_lo..=reach_hi).contains(x)).collect();
        v.sort_by(|a, b| a.total_cmp(b));
        v.dedup();
        // thin out: keep at most 15 per axis
        while v.len() > 15 {
            let k = v.len() / 2;
            v.remove(k);
        }
        per_axis.push(v);
    }
    let mut points: Vec<Vec<f64>> = vec![vec![]];
    for v in &per_axis {
        points = points.iter().flat_map(|p| v.iter().map(move |x| { let mut q = p.clone(); q.push(*x); q })).collect();
    }
    for p in &points {
        *stats.entry("points").or_default() += 1.0;
        // membership per rule: Some(true/false) when strictly decided, None near an edge
        let mut near_edge = false;
        let mut applicable = vec![];
        for (ri, sets) in boxes.iter().enumerate() {
            let mut inside_any = false;
            for b in sets {
                let mut inside = true;
                for (ai, (lo, hi)) in b.iter().enumerate() {
                    let x = p[ai];
                    // an empty range never matches
                    if lo > hi {
                        inside = false;
                        break;
                    }
                    if (x - q14(*lo)).abs() <= 1.5 * Q && *lo > -1.0 || (x - q14(*hi)).abs() <= 1.5 * Q && *hi < 1.0 {
                        near_edge = true;
                    }
                    if x < *lo || x > *hi {
                        inside = false;
                    }
                }
                inside_any |= inside;
            }
            if inside_any {
                applicable.push(ri);
            }
        }
        if near_edge {
            *stats.entry("edge_points").or_default() += 1.0;
            continue;
        }
        // expected substitutions: rules in order, earlier wins; conflicting targets -> not asserted (finding F8)
        let mut want: BTreeMap<String, String> = BTreeMap::new();
        let mut conflict = false;
        for ri in &applicable {
            for s in rules[*ri]["subs"].as_array().cloned().unwrap_or_default() {
                let (a, b) = (s[0].as_str().unwrap_or("").to_string(), s[1].as_str().unwrap_or("").to_string());
                match want.get(&a) {
                    Some(prev) if *prev != b => conflict = true,
                    Some(_) => {}
                    None => {
                        want.insert(a, b);
                    }
                }
            }
        }
        if conflict {
            *stats.entry("conflicting_points").or_default() += 1.0;
            continue;
        }
        if !applicable.is_empty() {
            *stats.entry("points_with_active_rule").or_default() += 1.0;
        }
        *stats.entry("asserted_points").or_default() += 1.0;
        let shaper = match otl::shaper_for(&font, p) {
            Ok(s) => s,
            Err(e) => {
                violations.push(format!("layout tables cannot be decoded: {e}"));
                break;
            }
        };
        let Some(gsub) = &shaper.gsub else {
            if !want.is_empty() {
                violations.push(format!("at {p:?} rules substitute {want:?} but the font has no GSUB"));
            }
            continue;
        };
        for script in gsub.scripts.keys() {
            let lookups = shaper.active_lookups(gsub, script, "dflt", Some(&[tag]));
            for name in &order {
                let Some(&g) = gid_of.get(name.as_str()) else { continue };
                let mut buf = vec![g];
                shaper.apply_gsub(&mut buf, &lookups);
                let got = buf.first().and_then(|g| order.get(*g as usize)).cloned().unwrap_or_default();
                let exp = want.get(name).cloned().unwrap_or_else(|| name.clone());
                if bracket && buf.len() == 1 && got != *name && want.contains_key(name) {
                    // the substitute is a generated bracket glyph: it must belong to this glyph and be drawn like the alternate
                    let mut ok = got.starts_with(&format!("{name}.BRACKET."));
                    if ok {
                        let mut have = super::boundary::raw_simple_points(&font, buf[0] as u32).unwrap_or_default();
                        have.sort();
                        ok = Some(have) == layer_points(&exp);
                        *stats.entry("bracket_substitutes_compared").or_default() += 1.0;
                    }
                    if ok && advance_checked.insert((buf[0], exp.clone())) {
                        // the generated glyph's advance at every master is the bracket layer's own width there (C04), also on a
                        // master that links its metrics to another one: the link redirects master layers only
                        let gid = buf[0] as u32;
                        let adv0 = font.hmtx().ok().and_then(|h| h.advance(write_fonts::read::types::GlyphId::new(gid))).unwrap_or(0) as f64;
                        let alt = man["glyphs"].as_array().and_then(|gs| gs.iter().find(|g| g["name"].as_str() == Some(exp.as_str())));
                        for m in man["masters"].as_array().cloned().unwrap_or_default() {
                            if !m["layer"].is_null() {
                                continue;
                            }
                            let Some(w) = alt.and_then(|g| g["layers"].get(m["name"].as_str().unwrap_or(""))).map(|l| f(&l["width"])) else { continue };
                            let coords: Vec<f64> = axes.iter().map(|a| q14(a.normalize_design(f(&m["design_loc"][&a.tag])))).collect();
                            let mut adv = adv0;
                            if let Some(h) = &hvar {
                                if let Some(ivs) = &hvar_ivs {
                                    let (o, i) = match h.advance_width_mapping() {
                                        Some(Ok(map)) => super::vf::map_get(&map, gid).unwrap_or((0xFFFF, 0xFFFF)),
                                        _ => (0, gid as usize),
                                    };
                                    if let Some((d, _)) = ivs.delta(o, i, &coords) {
                                        adv += d;
                                    }
                                }
                            }
                            *stats.entry("bracket_advances_compared").or_default() += 1.0;
                            if man["link_metrics"]["master"] == m["name"] {
                                *stats.entry("bracket_advances_on_linking_master").or_default() += 1.0;
                            }
                            if (adv - super::src::ot_round(w)).abs() > 1.0 + 1e-6 && violations.len() < 12 {
                                violations.push(format!("glyph '{got}' (the bracket layer of '{name}' drawn like '{exp}') at master {}: hmtx+HVAR advance {adv} but that layer's width is {w}", m["name"]));
                            }
                        }
                    }
                    if !ok && violations.len() < 12 {
                        violations.push(format!("at {p:?} under {script} ({tag}): glyph '{name}' becomes '{got}', which is not drawn like '{exp}' (the bracket layer that applies there; applicable rules {applicable:?})"));
                    }
                    continue;
                }
                if bracket && name.contains(".BRACKET.") {
                    continue; // generated glyphs are only ever targets
                }
                if got != exp || buf.len() != 1 {
                    if violations.len() < 12 {
                        violations.push(format!("at {p:?} under {script} ({tag}): glyph '{name}' becomes '{got}' but the source rules give '{exp}' (applicable rules {applicable:?})"));
                    }
                }
            }
        }
    }
    json!({"violations": violations, "stats": stats})
}
