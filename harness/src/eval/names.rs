//! C18: names referenced from fvar / STAT / feature parameters exist, use reserved ids only where the
//! specification allows, and say what the source (manifest) says; ids 1-6, 16, 17 follow the documented
//! fallback rules (expected strings computed by the generator's own model, `expect_names` in the manifest).
use std::collections::BTreeMap;

use serde_json::Value;
use write_fonts::read::{tables::stat::AxisValue, FontRef, TableProvider};

use super::otl;
use super::src::{f, Axis, Out};

pub fn name_table(font: &FontRef) -> BTreeMap<u16, Vec<String>> {
    let mut out: BTreeMap<u16, Vec<String>> = BTreeMap::new();
    if let Ok(name) = font.name() {
        for rec in name.name_record() {
            if let Ok(s) = rec.string(name.string_data()) {
                out.entry(rec.name_id().to_u16()).or_default().push(s.chars().collect());
            }
        }
    }
    out
}

/// Every use of a name id outside the name table: (what, id, lowest id allowed besides the listed exceptions, exceptions).
pub fn references(font: &FontRef) -> Result<Vec<(String, u16, Vec<u16>)>, String> {
    let mut refs = vec![];
    if let Ok(fvar) = font.fvar() {
        let axes = fvar.axes().map_err(|e| e.to_string())?;
        for a in axes {
            refs.push((format!("fvar axis {}", a.axis_tag()), a.axis_name_id().to_u16(), vec![]));
        }
        let defaults: Vec<f64> = axes.iter().map(|a| a.default_value().to_f64()).collect();
        if let Ok(insts) = fvar.instances() {
            for (i, inst) in insts.iter().enumerate() {
                let inst = inst.map_err(|e| e.to_string())?;
                let at_default = inst.coordinates.iter().zip(&defaults).all(|(c, d)| (c.get().to_f64() - d).abs() < 1e-9);
                refs.push((format!("fvar instance {i} subfamily"), inst.subfamily_name_id.to_u16(), if at_default { vec![2, 17] } else { vec![] }));
                if let Some(ps) = inst.post_script_name_id {
                    if ps.to_u16() != 0xFFFF {
                        refs.push((format!("fvar instance {i} PostScript name"), ps.to_u16(), vec![6]));
                    }
                }
            }
        }
    }
    if let Ok(stat) = font.stat() {
        if let Ok(axes) = stat.design_axes() {
            for a in axes {
                refs.push((format!("STAT axis {}", a.axis_tag()), a.axis_name_id().to_u16(), vec![]));
            }
        }
        if let Some(id) = stat.elided_fallback_name_id() {
            refs.push(("STAT elided fallback name".to_string(), id.to_u16(), vec![2, 17]));
        }
        if let Some(Ok(values)) = stat.offset_to_axis_values() {
            for (i, v) in values.axis_values().iter().enumerate() {
                let v = v.map_err(|e| e.to_string())?;
                let id = match v {
                    AxisValue::Format1(t) => t.value_name_id(),
                    AxisValue::Format2(t) => t.value_name_id(),
                    AxisValue::Format3(t) => t.value_name_id(),
                    AxisValue::Format4(t) => t.value_name_id(),
                };
                refs.push((format!("STAT axis value {i}"), id.to_u16(), vec![]));
            }
        }
    }
    // layout feature parameters
    let shaper = otl::shaper_for(font, &[])?;
    for (tname, layout) in [("GSUB", &shaper.gsub), ("GPOS", &shaper.gpos)] {
        let Some(l) = layout else { continue };
        for feat in &l.features {
            if feat.params.is_empty() {
                continue;
            }
            let u = |o: usize| feat.params.get(o..o + 2).map(|b| u16::from_be_bytes([b[0], b[1]])).unwrap_or(0);
            let t = feat.tag.as_str();
            if t.starts_with("ss") && t[2..].chars().all(|c| c.is_ascii_digit()) {
                refs.push((format!("{tname} {t} UI name"), u(2), vec![]));
            } else if t.starts_with("cv") && t[2..].chars().all(|c| c.is_ascii_digit()) {
                for (k, what) in [(2, "label"), (4, "tooltip"), (6, "sample text")] {
                    // NULL (0) means unused; fea-rs writes 0xFFFF (the invalid name id) for an unused field, which
                    // layout engines also read as "none": neither is a use of a name
                    if u(k) != 0 && u(k) != 0xFFFF {
                        refs.push((format!("{tname} {t} {what}"), u(k), vec![]));
                    }
                }
                let n = u(8);
                for p in 0..n {
                    refs.push((format!("{tname} {t} parameter {p}"), u(10) + p, vec![]));
                }
            } else if t == "size" && u(2) != 0 {
                refs.push((format!("{tname} size menu name"), u(4), vec![]));
            }
        }
    }
    Ok(refs)
}

pub fn check(font: &FontRef, man: &Value, axes: &[Axis], out: &mut Out) {
    let names = name_table(font);
    let refs = match references(font) {
        Ok(r) => r,
        Err(e) => {
            out.viol("C18", format!("tables that reference names cannot be read: {e}"));
            return;
        }
    };
    let get = |id: u16| -> Option<&String> { names.get(&id).and_then(|v| v.iter().find(|s| !s.is_empty())) };
    for (what, id, allowed_reserved) in &refs {
        out.stat("c18_references", 1.0);
        if *id >= 256 || allowed_reserved.contains(id) {
            out.stat("c18_nontrivial", 1.0);
        }
        if get(*id).is_none() {
            out.viol("C18", format!("{what} uses name id {id} which has no non-empty record in the name table"));
        }
        if *id < 256 && !allowed_reserved.contains(id) {
            out.viol("C18", format!("{what} uses reserved name id {id} ({:?}); only {:?} or ids >= 256 are allowed there", get(*id), allowed_reserved));
        }
        if *id >= 32768 {
            out.viol("C18", format!("{what} uses name id {id}, beyond the font-specific range"));
        }
    }
    // strings the source dictates
    let man_axes = man["axes"].as_array().cloned().unwrap_or_default();
    if let Ok(fvar) = font.fvar() {
        if let Ok(fa) = fvar.axes() {
            for (a, m) in fa.iter().zip(&man_axes) {
                let want = m["label"].as_str().or(m["name"].as_str()).unwrap_or("");
                if !m["labelnames"].is_null() {
                    out.stat("c18_axes_with_localized_labels", 1.0);
                }
                if get(a.axis_name_id().to_u16()).map(|s| s.as_str()) != Some(want) {
                    out.viol("C18", format!("fvar axis {} is named {:?} but the source calls it '{want}'", a.axis_tag(), get(a.axis_name_id().to_u16())));
                }
            }
        }
        let insts = man["instances"].as_array().cloned().unwrap_or_default();
        if let Ok(fi) = fvar.instances() {
            if fi.len() != insts.len() {
                out.viol("C18", format!("fvar has {} named instances, the source {}", fi.len(), insts.len()));
            }
            for (i, (inst, m)) in fi.iter().zip(&insts).enumerate() {
                let Ok(inst) = inst else { continue };
                let want = m["name"].as_str().unwrap_or("");
                out.stat("c18_instance_names", 1.0);
                if get(inst.subfamily_name_id.to_u16()).map(|s| s.as_str()) != Some(want) {
                    out.viol("C18", format!("named instance {i} is called {:?} (name id {}) but the source calls it '{want}'", get(inst.subfamily_name_id.to_u16()), inst.subfamily_name_id.to_u16()));
                }
                match (m["psname"].as_str(), inst.post_script_name_id.map(|p| p.to_u16()).filter(|p| *p != 0xFFFF)) {
                    (Some(w), Some(id)) => {
                        if get(id).map(|s| s.as_str()) != Some(w) {
                            out.viol("C18", format!("named instance {i} PostScript name is {:?} but the source says '{w}'", get(id)));
                        }
                    }
                    (Some(w), None) => out.viol("C18", format!("named instance {i} has no PostScript name id but the source gives '{w}'")),
                    (None, Some(id)) => out.viol("C18", format!("named instance {i} has PostScript name id {id} ({:?}) but the source gives none", get(id))),
                    (None, None) => {}
                }
                // coordinates are the instance's user location
                for (c, ax) in inst.coordinates.iter().zip(axes) {
                    let want = f(&m["user_loc"][&ax.tag]);
                    if (c.get().to_f64() - want).abs() > 0.01 {  // (design -> user goes back through the axis map in f32)
                        out.viol("C18", format!("named instance {i} sits at {} on {} but the source puts it at {want}", c.get().to_f64(), ax.tag));
                    }
                }
            }
        }
    }
    if let (Ok(stat), true) = (font.stat(), man["fea_stat"].is_null()) {
        if let Ok(sa) = stat.design_axes() {
            for a in sa {
                let tag = a.axis_tag().to_string();
                if let Some(m) = man_axes.iter().find(|m| m["tag"].as_str() == Some(tag.as_str())) {
                    let want = m["label"].as_str().or(m["name"].as_str()).unwrap_or("");
                    if get(a.axis_name_id().to_u16()).map(|s| s.as_str()) != Some(want) {
                        out.viol("C18", format!("STAT axis {tag} is named {:?} but the source calls it '{want}'", get(a.axis_name_id().to_u16())));
                    }
                }
            }
        }
    }
    // a STAT table written in feature code: its own axis names, axis value names and elided fallback name
    if let (Ok(stat), Some(fs)) = (font.stat(), man["fea_stat"].as_object()) {
        out.stat("c18_fea_stat_tables", 1.0);
        let mut tags: Vec<String> = vec![];
        if let Ok(sa) = stat.design_axes() {
            for a in sa {
                let tag = a.axis_tag().to_string();
                if let Some(want) = fs["axes"][&tag].as_str() {
                    out.stat("c18_fea_stat_strings", 1.0);
                    if get(a.axis_name_id().to_u16()).map(|s| s.as_str()) != Some(want) {
                        out.viol("C18", format!("STAT axis {tag} is named {:?} but the feature file's STAT table calls it '{want}'", get(a.axis_name_id().to_u16())));
                    }
                } else {
                    out.viol("C18", format!("STAT lists an axis {tag} the feature file's STAT table does not declare"));
                }
                tags.push(tag);
            }
        }
        if let Some(id) = stat.elided_fallback_name_id() {
            out.stat("c18_fea_stat_strings", 1.0);
            if get(id.to_u16()).map(|s| s.as_str()) != fs["elided"].as_str() {
                out.viol("C18", format!("STAT elided fallback name is {:?} but the feature file says {:?}", get(id.to_u16()), fs["elided"].as_str()));
            }
        }
        let mut seen = 0usize;
        if let Some(Ok(values)) = stat.offset_to_axis_values() {
            for v in values.axis_values().iter().flatten() {
                let (ai, val, id) = match v {
                    AxisValue::Format1(t) => (t.axis_index(), t.value().to_f64(), t.value_name_id()),
                    AxisValue::Format2(t) => (t.axis_index(), t.nominal_value().to_f64(), t.value_name_id()),
                    AxisValue::Format3(t) => (t.axis_index(), t.value().to_f64(), t.value_name_id()),
                    AxisValue::Format4(_) => continue,
                };
                seen += 1;
                let tag = tags.get(ai as usize).cloned().unwrap_or_default();
                let want = fs["values"].as_array().and_then(|l| l.iter().find(|w| w["axis"].as_str() == Some(tag.as_str()) && (f(&w["value"]) - val).abs() < 1e-3)).and_then(|w| w["name"].as_str());
                out.stat("c18_fea_stat_strings", 1.0);
                match want {
                    Some(w) => {
                        if get(id.to_u16()).map(|s| s.as_str()) != Some(w) {
                            out.viol("C18", format!("STAT axis value {tag}={val} is named {:?} but the feature file names it '{w}'", get(id.to_u16())));
                        }
                    }
                    None => out.viol("C18", format!("STAT has an axis value {tag}={val} the feature file does not declare")),
                }
            }
        }
        let declared = fs["values"].as_array().map(|l| l.len()).unwrap_or(0);
        if seen != declared {
            out.viol("C18", format!("the feature file's STAT table declares {declared} axis values, the font has {seen}"));
        }
    }
    // records the source supplies itself (openTypeNameRecords): counted, and a reference must never land on a source id whose
    // string is not the one the reference stands for (that is the generic reference check above); survival itself is reported
    if let Some(list) = man["name_records"].as_array() {
        for item in list {
            out.stat("c18_source_records", 1.0);
            let id = item["id"].as_u64().unwrap_or(0) as u16;
            if names.get(&id).map(|v| v.iter().any(|s| Some(s.as_str()) == item["string"].as_str())).unwrap_or(false) {
                out.stat("c18_source_records_kept", 1.0);
            }
        }
    }
    // strings supplied through feature code
    if let Some(list) = man["fea_names"].as_array() {
        for item in list {
            let want = item["string"].as_str().unwrap_or("");
            let what = item["where"].as_str().unwrap_or("");
            out.stat("c18_fea_names", 1.0);
            let found = match item["ref"].as_str() {
                // a string that must be reachable through a specific reference
                Some(r) => {
                    let hits: Vec<_> = refs.iter().filter(|(w, _, _)| w.ends_with(r)).collect();
                    !hits.is_empty() && hits.iter().all(|(_, id, _)| get(*id).map(|s| s.as_str()) == Some(want))
                }
                None => match item["id"].as_u64() {
                    Some(id) if id < 256 => names.get(&(id as u16)).map(|v| v.iter().any(|s| s == want)).unwrap_or(false),
                    _ => names.values().any(|v| v.iter().any(|s| s == want)),
                },
            };
            if !found {
                out.viol("C18", format!("feature code supplies the name '{want}' for {what} but the font does not carry it there (references: {:?})", refs.iter().map(|(w, id, _)| (w.as_str(), *id, get(*id))).collect::<Vec<_>>()));
            }
        }
    }
    // documented fallback rules
    if let Some(exp) = man["expect_names"].as_object() {
        for (id, want) in exp {
            let id: u16 = id.parse().unwrap_or(0);
            out.stat("c18_fallback_names", 1.0);
            let got = names.get(&id).and_then(|v| v.first());
            match (want.as_str(), got) {
                (Some(w), Some(g)) => {
                    let ok = if id == 5 { g == w || g.starts_with(&format!("{w};fontc ")) } else { g == w };
                    if !ok {
                        out.viol("C18", format!("name id {id} is '{g}' but the source's naming fields give '{w}'"));
                    }
                }
                (Some(w), None) => out.viol("C18", format!("name id {id} is absent but the source's naming fields give '{w}'")),
                (None, Some(g)) => out.viol("C18", format!("name id {id} is '{g}' but the documented rules drop it (equal to the legacy names)")),
                (None, None) => {}
            }
        }
    }
}
