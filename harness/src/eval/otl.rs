//! Own OpenType Layout interpreter: GSUB 1-7, GPOS 1,2,4,5,6,7,8,9, GDEF classes / mark sets,
//! FeatureVariations.  Tables are decoded from raw bytes here (not through read-fonts), so both the
//! decoding and the application rules are independent of the code under test.
use std::collections::{BTreeMap, HashMap, HashSet};

use super::vf::Ivs;

type R<T> = Result<T, String>;

#[derive(Clone, Copy)]
pub struct Rd<'a> {
    pub d: &'a [u8],
}

impl<'a> Rd<'a> {
    pub fn u16(&self, o: usize) -> R<u16> {
        self.d.get(o..o + 2).map(|b| u16::from_be_bytes([b[0], b[1]])).ok_or_else(|| format!("read u16 at {o} beyond {} bytes", self.d.len()))
    }
    pub fn i16(&self, o: usize) -> R<i16> {
        self.u16(o).map(|v| v as i16)
    }
    pub fn u32(&self, o: usize) -> R<u32> {
        self.d.get(o..o + 4).map(|b| u32::from_be_bytes([b[0], b[1], b[2], b[3]])).ok_or_else(|| format!("read u32 at {o} beyond {} bytes", self.d.len()))
    }
    pub fn tag(&self, o: usize) -> R<String> {
        self.d.get(o..o + 4).map(|b| String::from_utf8_lossy(b).to_string()).ok_or_else(|| format!("read tag at {o}"))
    }
    pub fn at(&self, o: usize) -> R<Rd<'a>> {
        if o > self.d.len() {
            return Err(format!("offset {o} beyond {} bytes", self.d.len()));
        }
        Ok(Rd { d: &self.d[o..] })
    }
    fn u16s(&self, o: usize, n: usize) -> R<Vec<u16>> {
        (0..n).map(|i| self.u16(o + 2 * i)).collect()
    }
}

pub fn coverage(t: Rd) -> R<Vec<u16>> {
    let fmt = t.u16(0)?;
    let n = t.u16(2)? as usize;
    match fmt {
        1 => t.u16s(4, n),
        2 => {
            let mut out = vec![];
            for i in 0..n {
                let (s, e, sci) = (t.u16(4 + 6 * i)?, t.u16(6 + 6 * i)?, t.u16(8 + 6 * i)?);
                if e < s {
                    return Err(format!("coverage range {s}..{e} reversed"));
                }
                if sci as usize != out.len() {
                    return Err(format!("coverage range start index {sci} != {}", out.len()));
                }
                out.extend(s..=e);
            }
            Ok(out)
        }
        f => Err(format!("coverage format {f}")),
    }
}

pub fn classdef(t: Rd) -> R<HashMap<u16, u16>> {
    let fmt = t.u16(0)?;
    let mut out = HashMap::new();
    match fmt {
        1 => {
            let start = t.u16(2)?;
            let n = t.u16(4)? as usize;
            for i in 0..n {
                let c = t.u16(6 + 2 * i)?;
                if c != 0 {
                    out.insert(start + i as u16, c);
                }
            }
        }
        2 => {
            let n = t.u16(2)? as usize;
            for i in 0..n {
                let (s, e, c) = (t.u16(4 + 6 * i)?, t.u16(6 + 6 * i)?, t.u16(8 + 6 * i)?);
                for g in s..=e {
                    if c != 0 {
                        out.insert(g, c);
                    }
                }
            }
        }
        f => return Err(format!("classdef format {f}")),
    }
    Ok(out)
}

#[derive(Clone, Copy, Debug, Default, PartialEq)]
pub struct Var {
    pub v: i16,
    /// VariationIndex (outer, inner)
    pub dev: Option<(u16, u16)>,
}

#[derive(Clone, Copy, Debug, Default, PartialEq)]
pub struct ValueRecord {
    pub xp: Var,
    pub yp: Var,
    pub xa: Var,
    pub ya: Var,
}

fn value_size(fmt: u16) -> usize {
    2 * (fmt & 0xFF).count_ones() as usize
}

fn device(base: Rd, off: u16) -> R<Option<(u16, u16)>> {
    if off == 0 {
        return Ok(None);
    }
    let t = base.at(off as usize)?;
    if t.u16(4)? == 0x8000 {
        Ok(Some((t.u16(0)?, t.u16(2)?)))
    } else {
        Ok(None) // hinting device table: irrelevant unhinted
    }
}

/// `rec` = where the record starts, `base` = table its device offsets are relative to.
fn value_record(base: Rd, rec: usize, fmt: u16) -> R<ValueRecord> {
    let mut vr = ValueRecord::default();
    let mut o = rec;
    let mut vals = [0i16; 4];
    for (i, v) in vals.iter_mut().enumerate() {
        if fmt & (1 << i) != 0 {
            *v = base.i16(o)?;
            o += 2;
        }
    }
    let mut devs = [None; 4];
    for (i, d) in devs.iter_mut().enumerate() {
        if fmt & (0x10 << i) != 0 {
            *d = device(base, base.u16(o)?)?;
            o += 2;
        }
    }
    vr.xp = Var { v: vals[0], dev: devs[0] };
    vr.yp = Var { v: vals[1], dev: devs[1] };
    vr.xa = Var { v: vals[2], dev: devs[2] };
    vr.ya = Var { v: vals[3], dev: devs[3] };
    Ok(vr)
}

#[derive(Clone, Copy, Debug, PartialEq)]
pub struct Anchor {
    pub x: Var,
    pub y: Var,
}

fn anchor(base: Rd, off: u16) -> R<Option<Anchor>> {
    if off == 0 {
        return Ok(None);
    }
    let t = base.at(off as usize)?;
    let fmt = t.u16(0)?;
    let (x, y) = (t.i16(2)?, t.i16(4)?);
    let (dx, dy) = if fmt == 3 { (device(t, t.u16(6)?)?, device(t, t.u16(8)?)?) } else { (None, None) };
    if !(1..=3).contains(&fmt) {
        return Err(format!("anchor format {fmt}"));
    }
    Ok(Some(Anchor { x: Var { v: x, dev: dx }, y: Var { v: y, dev: dy } }))
}

#[derive(Clone, Debug)]
pub struct SeqLookup {
    pub seq: usize,
    pub lookup: usize,
}

#[derive(Clone, Debug)]
pub enum Matcher {
    Glyph(u16),
    Class(u16),
    Cov(HashSet<u16>),
}

#[derive(Clone, Debug)]
pub struct CtxRule {
    pub backtrack: Vec<Matcher>, // nearest first (as stored)
    pub input: Vec<Matcher>,     // including the first glyph
    pub lookahead: Vec<Matcher>,
    pub actions: Vec<SeqLookup>,
}

#[derive(Clone, Debug)]
pub enum Sub {
    Single(HashMap<u16, u16>),
    Multiple(HashMap<u16, Vec<u16>>),
    Alternate(HashMap<u16, Vec<u16>>),
    /// first glyph -> [(ligature glyph, remaining components)] in stored order
    Ligature(HashMap<u16, Vec<(u16, Vec<u16>)>>),
    /// rules in stored order; class maps for backtrack / input / lookahead
    Context { cov: HashSet<u16>, rules: Vec<CtxRule>, classes: [HashMap<u16, u16>; 3] },
    SinglePos(HashMap<u16, ValueRecord>),
    PairGlyph { sets: HashMap<u16, Vec<(u16, ValueRecord, ValueRecord)>>, vf2: u16 },
    PairClass { cov: HashSet<u16>, c1: HashMap<u16, u16>, c2: HashMap<u16, u16>, recs: Vec<Vec<(ValueRecord, ValueRecord)>>, vf2: u16 },
    MarkBase { marks: HashMap<u16, (u16, Anchor)>, bases: HashMap<u16, Vec<Option<Anchor>>> },
    MarkLig { marks: HashMap<u16, (u16, Anchor)>, ligs: HashMap<u16, Vec<Vec<Option<Anchor>>>> },
    MarkMark { marks: HashMap<u16, (u16, Anchor)>, bases: HashMap<u16, Vec<Option<Anchor>>> },
    Cursive,
    Unsupported(String),
}

#[derive(Clone, Debug)]
pub struct Lookup {
    pub typ: u16,
    pub flag: u16,
    pub mark_set: Option<u16>,
    pub subs: Vec<Sub>,
}

#[derive(Clone, Debug, Default)]
pub struct LangSys {
    pub required: Option<u16>,
    pub features: Vec<u16>,
}

#[derive(Clone, Debug)]
pub struct Feature {
    pub tag: String,
    pub lookups: Vec<u16>,
    pub has_params: bool,
    /// the FeatureParams table (first bytes), if any
    pub params: Vec<u8>,
}

#[derive(Clone, Debug)]
pub struct FvRecord {
    /// (axis index, min, max) in F2Dot14 units as f64
    pub conditions: Vec<(u16, f64, f64)>,
    /// feature index -> replacement lookup list
    pub subst: BTreeMap<u16, Vec<u16>>,
}

#[derive(Clone, Debug, Default)]
pub struct Layout {
    /// script tag -> language tag ("dflt" = default LangSys) -> LangSys
    pub scripts: BTreeMap<String, BTreeMap<String, LangSys>>,
    pub features: Vec<Feature>,
    pub lookups: Vec<Lookup>,
    pub fvars: Vec<FvRecord>,
}

fn mark_array(base: Rd, off: usize, cov: &[u16]) -> R<HashMap<u16, (u16, Anchor)>> {
    let t = base.at(off)?;
    let n = t.u16(0)? as usize;
    if n != cov.len() {
        return Err(format!("mark array has {n} records for {} covered marks", cov.len()));
    }
    let mut out = HashMap::new();
    for (i, g) in cov.iter().enumerate() {
        let class = t.u16(2 + 4 * i)?;
        let a = anchor(t, t.u16(4 + 4 * i)?)?.ok_or("null mark anchor")?;
        out.insert(*g, (class, a));
    }
    Ok(out)
}

fn anchor_matrix(base: Rd, off: usize, cov: &[u16], classes: usize) -> R<HashMap<u16, Vec<Option<Anchor>>>> {
    let t = base.at(off)?;
    let n = t.u16(0)? as usize;
    if n != cov.len() {
        return Err(format!("base array has {n} records for {} covered glyphs", cov.len()));
    }
    let mut out = HashMap::new();
    for (i, g) in cov.iter().enumerate() {
        let mut row = vec![];
        for c in 0..classes {
            row.push(anchor(t, t.u16(2 + 2 * (i * classes + c))?)?);
        }
        out.insert(*g, row);
    }
    Ok(out)
}

fn seq_lookups(t: Rd, o: usize, n: usize) -> R<Vec<SeqLookup>> {
    (0..n).map(|i| Ok(SeqLookup { seq: t.u16(o + 4 * i)? as usize, lookup: t.u16(o + 4 * i + 2)? as usize })).collect()
}

fn context(t: Rd, chain: bool) -> R<Sub> {
    let fmt = t.u16(0)?;
    let mut rules = vec![];
    let mut classes: [HashMap<u16, u16>; 3] = Default::default();
    let cov: HashSet<u16>;
    let rule = |r: Rd, first: Matcher, mk: &dyn Fn(u16) -> Matcher| -> R<CtxRule> {
        let mut o = 0;
        let mut backtrack = vec![];
        if chain {
            let n = r.u16(o)? as usize;
            backtrack = r.u16s(o + 2, n)?.into_iter().map(mk).collect();
            o += 2 + 2 * n;
        }
        let gc = r.u16(o)? as usize;
        if gc == 0 {
            return Err("context rule with zero input glyphs".into());
        }
        o += 2;
        let mut nlk = 0;
        if !chain {
            nlk = r.u16(o)? as usize;
            o += 2;
        }
        let mut input = vec![first];
        input.extend(r.u16s(o, gc - 1)?.into_iter().map(mk));
        o += 2 * (gc - 1);
        let mut lookahead = vec![];
        if chain {
            let n = r.u16(o)? as usize;
            lookahead = r.u16s(o + 2, n)?.into_iter().map(mk).collect();
            o += 2 + 2 * n;
            nlk = r.u16(o)? as usize;
            o += 2;
        }
        Ok(CtxRule { backtrack, input, lookahead, actions: seq_lookups(r, o, nlk)? })
    };
    match fmt {
        1 => {
            let cv = coverage(t.at(t.u16(2)? as usize)?)?;
            let n = t.u16(4)? as usize;
            for (i, g) in cv.iter().enumerate().take(n) {
                let so = t.u16(6 + 2 * i)? as usize;
                if so == 0 {
                    continue;
                }
                let set = t.at(so)?;
                for k in 0..set.u16(0)? as usize {
                    rules.push(rule(set.at(set.u16(2 + 2 * k)? as usize)?, Matcher::Glyph(*g), &Matcher::Glyph)?);
                }
            }
            cov = cv.into_iter().collect();
        }
        2 => {
            cov = coverage(t.at(t.u16(2)? as usize)?)?.into_iter().collect();
            let (n, base) = if chain {
                for (k, slot) in classes.iter_mut().enumerate() {
                    let o = t.u16(4 + 2 * k)? as usize;
                    if o != 0 {
                        *slot = classdef(t.at(o)?)?;
                    }
                }
                (t.u16(10)? as usize, 12)
            } else {
                classes[1] = classdef(t.at(t.u16(4)? as usize)?)?;
                (t.u16(6)? as usize, 8)
            };
            for c in 0..n {
                let so = t.u16(base + 2 * c)? as usize;
                if so == 0 {
                    continue;
                }
                let set = t.at(so)?;
                for k in 0..set.u16(0)? as usize {
                    rules.push(rule(set.at(set.u16(2 + 2 * k)? as usize)?, Matcher::Class(c as u16), &Matcher::Class)?);
                }
            }
        }
        3 => {
            let covs = |o: usize, n: usize| -> R<Vec<Matcher>> { (0..n).map(|i| Ok(Matcher::Cov(coverage(t.at(t.u16(o + 2 * i)? as usize)?)?.into_iter().collect()))).collect() };
            let mut o = 2;
            let mut backtrack = vec![];
            let mut lookahead = vec![];
            let input;
            let nlk;
            if chain {
                let n = t.u16(o)? as usize;
                backtrack = covs(o + 2, n)?;
                o += 2 + 2 * n;
                let n = t.u16(o)? as usize;
                input = covs(o + 2, n)?;
                o += 2 + 2 * n;
                let n = t.u16(o)? as usize;
                lookahead = covs(o + 2, n)?;
                o += 2 + 2 * n;
                nlk = t.u16(o)? as usize;
                o += 2;
            } else {
                let n = t.u16(o)? as usize;
                nlk = t.u16(o + 2)? as usize;
                input = covs(o + 4, n)?;
                o += 4 + 2 * n;
            }
            if input.is_empty() {
                return Err("format 3 context without input".into());
            }
            cov = match &input[0] {
                Matcher::Cov(c) => c.clone(),
                _ => unreachable!(),
            };
            rules.push(CtxRule { backtrack, input, lookahead, actions: seq_lookups(t, o, nlk)? });
        }
        f => return Err(format!("context format {f}")),
    }
    Ok(Sub::Context { cov, rules, classes })
}

fn subtable(t: Rd, gpos: bool, typ: u16) -> R<Sub> {
    let fmt = t.u16(0)?;
    let cov_at = |o: usize| -> R<Vec<u16>> { coverage(t.at(t.u16(o)? as usize)?) };
    Ok(match (gpos, typ) {
        (false, 1) => {
            let cov = cov_at(2)?;
            let mut m = HashMap::new();
            match fmt {
                1 => {
                    let d = t.i16(4)?;
                    for g in cov {
                        m.insert(g, (g as i32 + d as i32) as u16);
                    }
                }
                2 => {
                    let n = t.u16(4)? as usize;
                    if n != cov.len() {
                        return Err(format!("single subst: {n} substitutes for {} covered", cov.len()));
                    }
                    for (i, g) in cov.into_iter().enumerate() {
                        m.insert(g, t.u16(6 + 2 * i)?);
                    }
                }
                f => return Err(format!("single subst format {f}")),
            }
            Sub::Single(m)
        }
        (false, 2) | (false, 3) => {
            let cov = cov_at(2)?;
            let n = t.u16(4)? as usize;
            if n != cov.len() {
                return Err(format!("multiple/alternate subst: {n} sets for {} covered", cov.len()));
            }
            let mut m = HashMap::new();
            for (i, g) in cov.into_iter().enumerate() {
                let s = t.at(t.u16(6 + 2 * i)? as usize)?;
                m.insert(g, s.u16s(2, s.u16(0)? as usize)?);
            }
            if typ == 2 { Sub::Multiple(m) } else { Sub::Alternate(m) }
        }
        (false, 4) => {
            let cov = cov_at(2)?;
            let n = t.u16(4)? as usize;
            if n != cov.len() {
                return Err(format!("ligature subst: {n} sets for {} covered", cov.len()));
            }
            let mut m = HashMap::new();
            for (i, g) in cov.into_iter().enumerate() {
                let set = t.at(t.u16(6 + 2 * i)? as usize)?;
                let mut ligs = vec![];
                for k in 0..set.u16(0)? as usize {
                    let l = set.at(set.u16(2 + 2 * k)? as usize)?;
                    let cc = l.u16(2)? as usize;
                    if cc == 0 {
                        return Err("ligature with zero components".into());
                    }
                    ligs.push((l.u16(0)?, l.u16s(4, cc - 1)?));
                }
                m.insert(g, ligs);
            }
            Sub::Ligature(m)
        }
        (false, 5) | (true, 7) => context(t, false)?,
        (false, 6) | (true, 8) => context(t, true)?,
        (true, 1) => {
            let cov = cov_at(2)?;
            let vf = t.u16(4)?;
            let mut m = HashMap::new();
            match fmt {
                1 => {
                    let vr = value_record(t, 6, vf)?;
                    for g in cov {
                        m.insert(g, vr);
                    }
                }
                2 => {
                    let n = t.u16(6)? as usize;
                    if n != cov.len() {
                        return Err(format!("single pos: {n} records for {} covered", cov.len()));
                    }
                    for (i, g) in cov.into_iter().enumerate() {
                        m.insert(g, value_record(t, 8 + i * value_size(vf), vf)?);
                    }
                }
                f => return Err(format!("single pos format {f}")),
            }
            Sub::SinglePos(m)
        }
        (true, 2) => {
            let cov = cov_at(2)?;
            let (vf1, vf2) = (t.u16(4)?, t.u16(6)?);
            let (s1, s2) = (value_size(vf1), value_size(vf2));
            match fmt {
                1 => {
                    let n = t.u16(8)? as usize;
                    if n != cov.len() {
                        return Err(format!("pair pos 1: {n} pair sets for {} covered", cov.len()));
                    }
                    let mut sets = HashMap::new();
                    for (i, g) in cov.into_iter().enumerate() {
                        let ps = t.at(t.u16(10 + 2 * i)? as usize)?;
                        let cnt = ps.u16(0)? as usize;
                        let mut v = vec![];
                        let mut prev: Option<u16> = None;
                        for k in 0..cnt {
                            let o = 2 + k * (2 + s1 + s2);
                            let g2 = ps.u16(o)?;
                            if prev.map(|p| p >= g2).unwrap_or(false) {
                                return Err(format!("pair set of glyph {g} not sorted by second glyph ({} then {g2})", prev.unwrap()));
                            }
                            prev = Some(g2);
                            v.push((g2, value_record(ps, o + 2, vf1)?, value_record(ps, o + 2 + s1, vf2)?));
                        }
                        sets.insert(g, v);
                    }
                    Sub::PairGlyph { sets, vf2 }
                }
                2 => {
                    let c1 = classdef(t.at(t.u16(8)? as usize)?)?;
                    let c2 = classdef(t.at(t.u16(10)? as usize)?)?;
                    let (n1, n2) = (t.u16(12)? as usize, t.u16(14)? as usize);
                    let mut recs = vec![];
                    for a in 0..n1 {
                        let mut row = vec![];
                        for b in 0..n2 {
                            let o = 16 + (a * n2 + b) * (s1 + s2);
                            row.push((value_record(t, o, vf1)?, value_record(t, o + s1, vf2)?));
                        }
                        recs.push(row);
                    }
                    Sub::PairClass { cov: cov.into_iter().collect(), c1, c2, recs, vf2 }
                }
                f => return Err(format!("pair pos format {f}")),
            }
        }
        (true, 3) => Sub::Cursive,
        (true, 4) | (true, 6) => {
            let mcov = cov_at(2)?;
            let bcov = cov_at(4)?;
            let nc = t.u16(6)? as usize;
            let marks = mark_array(t, t.u16(8)? as usize, &mcov)?;
            for (g, (c, _)) in &marks {
                if *c as usize >= nc {
                    return Err(format!("mark {g} has class {c} >= markClassCount {nc}"));
                }
            }
            let bases = anchor_matrix(t, t.u16(10)? as usize, &bcov, nc)?;
            if typ == 4 { Sub::MarkBase { marks, bases } } else { Sub::MarkMark { marks, bases } }
        }
        (true, 5) => {
            let mcov = cov_at(2)?;
            let lcov = cov_at(4)?;
            let nc = t.u16(6)? as usize;
            let marks = mark_array(t, t.u16(8)? as usize, &mcov)?;
            let la = t.at(t.u16(10)? as usize)?;
            let n = la.u16(0)? as usize;
            if n != lcov.len() {
                return Err(format!("ligature array has {n} entries for {} covered", lcov.len()));
            }
            let mut ligs = HashMap::new();
            for (i, g) in lcov.into_iter().enumerate() {
                let att = la.at(la.u16(2 + 2 * i)? as usize)?;
                let cc = att.u16(0)? as usize;
                let mut comps = vec![];
                for c in 0..cc {
                    let mut row = vec![];
                    for k in 0..nc {
                        row.push(anchor(att, att.u16(2 + 2 * (c * nc + k))?)?);
                    }
                    comps.push(row);
                }
                ligs.insert(g, comps);
            }
            Sub::MarkLig { marks, ligs }
        }
        (g, t) => Sub::Unsupported(format!("{} lookup type {t}", if g { "GPOS" } else { "GSUB" })),
    })
}

pub fn parse_layout(data: &[u8], gpos: bool) -> R<Layout> {
    let t = Rd { d: data };
    let (major, minor) = (t.u16(0)?, t.u16(2)?);
    if major != 1 {
        return Err(format!("layout table version {major}.{minor}"));
    }
    let mut out = Layout::default();
    // scripts
    let so = t.u16(4)? as usize;
    if so != 0 {
        let sl = t.at(so)?;
        for i in 0..sl.u16(0)? as usize {
            let tag = sl.tag(2 + 6 * i)?;
            let s = sl.at(sl.u16(6 + 6 * i)? as usize)?;
            let mut langs = BTreeMap::new();
            let ls = |l: Rd| -> R<LangSys> {
                let req = l.u16(2)?;
                Ok(LangSys { required: if req == 0xFFFF { None } else { Some(req) }, features: l.u16s(6, l.u16(4)? as usize)? })
            };
            let d = s.u16(0)? as usize;
            if d != 0 {
                langs.insert("dflt".to_string(), ls(s.at(d)?)?);
            }
            for k in 0..s.u16(2)? as usize {
                langs.insert(s.tag(4 + 6 * k)?, ls(s.at(s.u16(8 + 6 * k)? as usize)?)?);
            }
            out.scripts.insert(tag, langs);
        }
    }
    let fo = t.u16(6)? as usize;
    if fo != 0 {
        let fl = t.at(fo)?;
        for i in 0..fl.u16(0)? as usize {
            let f = fl.at(fl.u16(6 + 6 * i)? as usize)?;
            let po = f.u16(0)? as usize;
            let params = if po != 0 { f.at(po)?.d.iter().take(64).copied().collect() } else { vec![] };
            out.features.push(Feature { tag: fl.tag(2 + 6 * i)?, has_params: po != 0, lookups: f.u16s(4, f.u16(2)? as usize)?, params });
        }
    }
    let lo = t.u16(8)? as usize;
    if lo != 0 {
        let ll = t.at(lo)?;
        for i in 0..ll.u16(0)? as usize {
            let l = ll.at(ll.u16(2 + 2 * i)? as usize)?;
            let (typ, flag, n) = (l.u16(0)?, l.u16(2)?, l.u16(4)? as usize);
            let mark_set = if flag & 0x10 != 0 { Some(l.u16(6 + 2 * n)?) } else { None };
            let mut subs = vec![];
            let mut real_typ = typ;
            for k in 0..n {
                let mut st = l.at(l.u16(6 + 2 * k)? as usize)?;
                let mut ty = typ;
                if (gpos && typ == 9) || (!gpos && typ == 7) {
                    ty = st.u16(2)?;
                    st = st.at(st.u32(4)? as usize)?;
                    real_typ = ty;
                }
                subs.push(subtable(st, gpos, ty).map_err(|e| format!("lookup {i} subtable {k}: {e}"))?);
            }
            out.lookups.push(Lookup { typ: real_typ, flag, mark_set, subs });
        }
    }
    if minor >= 1 {
        let vo = t.u32(10)? as usize;
        if vo != 0 {
            let fv = t.at(vo)?;
            for i in 0..fv.u32(4)? as usize {
                let (co, so) = (fv.u32(8 + 8 * i)? as usize, fv.u32(12 + 8 * i)? as usize);
                let mut rec = FvRecord { conditions: vec![], subst: BTreeMap::new() };
                if co != 0 {
                    let cs = fv.at(co)?;
                    for k in 0..cs.u16(0)? as usize {
                        let c = cs.at(cs.u32(2 + 4 * k)? as usize)?;
                        if c.u16(0)? != 1 {
                            return Err(format!("condition format {}", c.u16(0)?));
                        }
                        rec.conditions.push((c.u16(2)?, c.i16(4)? as f64 / 16384.0, c.i16(6)? as f64 / 16384.0));
                    }
                }
                if so != 0 {
                    let st = fv.at(so)?;
                    for k in 0..st.u16(4)? as usize {
                        let fi = st.u16(6 + 6 * k)?;
                        let f = st.at(st.u32(8 + 6 * k)? as usize)?;
                        rec.subst.insert(fi, f.u16s(4, f.u16(2)? as usize)?);
                    }
                }
                out.fvars.push(rec);
            }
        }
    }
    Ok(out)
}

#[derive(Default, Clone, Debug)]
pub struct Gdef {
    pub classes: HashMap<u16, u16>,
    pub mark_attach: HashMap<u16, u16>,
    pub mark_sets: Vec<HashSet<u16>>,
    pub has_var_store: bool,
}

pub fn parse_gdef(data: &[u8]) -> R<Gdef> {
    let t = Rd { d: data };
    let minor = t.u16(2)?;
    let mut g = Gdef::default();
    let o = t.u16(4)? as usize;
    if o != 0 {
        g.classes = classdef(t.at(o)?)?;
    }
    let o = t.u16(10)? as usize;
    if o != 0 {
        g.mark_attach = classdef(t.at(o)?)?;
    }
    if minor >= 2 {
        let o = t.u16(12)? as usize;
        if o != 0 {
            let ms = t.at(o)?;
            for i in 0..ms.u16(2)? as usize {
                g.mark_sets.push(coverage(ms.at(ms.u32(4 + 4 * i)? as usize)?)?.into_iter().collect());
            }
        }
    }
    if minor >= 3 {
        g.has_var_store = t.u32(14)? != 0;
    }
    Ok(g)
}

// --------------------------------------------------------------------------- application

#[derive(Clone, Copy, Debug, Default, PartialEq)]
pub struct Pos {
    pub xp: f64,
    pub yp: f64,
    pub xa: f64,
    pub ya: f64,
}

pub struct Shaper {
    pub gsub: Option<Layout>,
    pub gpos: Option<Layout>,
    pub gdef: Gdef,
    pub ivs: Option<Ivs>,
    pub coords: Vec<f64>,
    /// 1-based alternate to choose for alternate substitutions
    pub alt_index: usize,
    pub fractional_seen: std::cell::Cell<bool>,
    pub unsupported: std::cell::RefCell<Vec<String>>,
}

impl Shaper {
    pub fn var(&self, v: Var) -> f64 {
        let mut out = v.v as f64;
        if let (Some((o, i)), Some(ivs)) = (v.dev, &self.ivs) {
            if let Some((d, frac)) = ivs.delta(o as usize, i as usize, &self.coords) {
                out += d;
                if frac {
                    self.fractional_seen.set(true);
                }
            }
        }
        out
    }

    fn skip(&self, g: u16, l: &Lookup) -> bool {
        let class = self.gdef.classes.get(&g).copied().unwrap_or(0);
        let f = l.flag;
        match class {
            1 if f & 2 != 0 => true,
            2 if f & 4 != 0 => true,
            3 => {
                if f & 8 != 0 {
                    return true;
                }
                if let Some(ms) = l.mark_set {
                    if !self.gdef.mark_sets.get(ms as usize).map(|s| s.contains(&g)).unwrap_or(false) {
                        return true;
                    }
                }
                let mat = f >> 8;
                mat != 0 && self.gdef.mark_attach.get(&g).copied().unwrap_or(0) != mat
            }
            _ => false,
        }
    }

    fn next(&self, buf: &[u16], i: usize, l: &Lookup) -> Option<usize> {
        (i + 1..buf.len()).find(|&j| !self.skip(buf[j], l))
    }

    fn prev(&self, buf: &[u16], i: usize, l: &Lookup) -> Option<usize> {
        (0..i).rev().find(|&j| !self.skip(buf[j], l))
    }

    fn matches(m: &Matcher, g: u16, classes: &HashMap<u16, u16>) -> bool {
        match m {
            Matcher::Glyph(x) => *x == g,
            Matcher::Class(c) => classes.get(&g).copied().unwrap_or(0) == *c,
            Matcher::Cov(s) => s.contains(&g),
        }
    }

    /// Lookup lists (in application order) of the features active for (script, lang), after FeatureVariations.
    pub fn active_lookups(&self, layout: &Layout, script: &str, lang: &str, only: Option<&[&str]>) -> Vec<usize> {
        let Some(langs) = layout.scripts.get(script).or_else(|| layout.scripts.get("DFLT")) else { return vec![] };
        let Some(ls) = langs.get(lang).or_else(|| langs.get("dflt")) else { return vec![] };
        let fv = layout.fvars.iter().find(|r| r.conditions.iter().all(|(ax, lo, hi)| {
            let v = self.coords.get(*ax as usize).copied().unwrap_or(0.0);
            v >= *lo && v <= *hi
        }));
        let mut set = std::collections::BTreeSet::new();
        let mut feats: Vec<u16> = ls.features.clone();
        if let Some(r) = ls.required {
            feats.push(r);
        }
        for fi in feats {
            let Some(f) = layout.features.get(fi as usize) else { continue };
            if let Some(only) = only {
                if !only.contains(&f.tag.as_str()) && Some(fi) != ls.required {
                    continue;
                }
            }
            let lk = fv.and_then(|r| r.subst.get(&fi)).unwrap_or(&f.lookups);
            set.extend(lk.iter().map(|l| *l as usize));
        }
        set.into_iter().collect()
    }

    // ------------------------------------------------------------------ GSUB
    pub fn apply_gsub(&self, buf: &mut Vec<u16>, lookups: &[usize]) {
        let Some(layout) = &self.gsub else { return };
        for &li in lookups {
            let Some(l) = layout.lookups.get(li) else { continue };
            let mut i = 0;
            while i < buf.len() {
                if self.skip(buf[i], l) {
                    i += 1;
                    continue;
                }
                i = self.gsub_at(layout, l, buf, i, 0).unwrap_or(i + 1);
            }
        }
    }

    /// Apply lookup `l` at position `i`; returns the next cursor position if something applied.
    fn gsub_at(&self, layout: &Layout, l: &Lookup, buf: &mut Vec<u16>, i: usize, depth: usize) -> Option<usize> {
        let g = buf[i];
        for st in &l.subs {
            match st {
                Sub::Single(m) => {
                    if let Some(r) = m.get(&g) {
                        buf[i] = *r;
                        return Some(i + 1);
                    }
                }
                Sub::Multiple(m) => {
                    if let Some(r) = m.get(&g) {
                        buf.splice(i..i + 1, r.iter().copied());
                        return Some(i + r.len());
                    }
                }
                Sub::Alternate(m) => {
                    if let Some(r) = m.get(&g) {
                        if let Some(a) = r.get(self.alt_index.saturating_sub(1)) {
                            buf[i] = *a;
                        }
                        return Some(i + 1);
                    }
                }
                Sub::Ligature(m) => {
                    if let Some(ligs) = m.get(&g) {
                        'lig: for (lig, comps) in ligs {
                            let mut pos = vec![i];
                            let mut j = i;
                            for c in comps {
                                match self.next(buf, j, l) {
                                    Some(k) if buf[k] == *c => {
                                        pos.push(k);
                                        j = k;
                                    }
                                    _ => continue 'lig,
                                }
                            }
                            // ligature replaces the first component; skipped glyphs stay, in order, after it
                            for &p in pos[1..].iter().rev() {
                                buf.remove(p);
                            }
                            buf[i] = *lig;
                            // cursor: after the last component's original place (skipped glyphs are not revisited)
                            return Some(j + 1 - (pos.len() - 1));
                        }
                    }
                }
                Sub::Context { cov, rules, classes } => {
                    if !cov.contains(&g) {
                        continue;
                    }
                    if let Some(next) = self.context_at(layout, l, rules, classes, buf, i, depth, false, &mut vec![]) {
                        return Some(next);
                    }
                }
                Sub::Unsupported(s) => self.unsupported.borrow_mut().push(s.clone()),
                _ => {}
            }
        }
        None
    }

    #[allow(clippy::too_many_arguments)]
    fn context_at(&self, layout: &Layout, l: &Lookup, rules: &[CtxRule], classes: &[HashMap<u16, u16>; 3], buf: &mut Vec<u16>, i: usize, depth: usize, gpos: bool,
                  pos: &mut Vec<Pos>) -> Option<usize> {
        'rule: for r in rules {
            let mut inp = vec![i];
            if !Self::matches(&r.input[0], buf[i], &classes[1]) {
                continue;
            }
            let mut j = i;
            for m in &r.input[1..] {
                match self.next(buf, j, l) {
                    Some(k) if Self::matches(m, buf[k], &classes[1]) => {
                        inp.push(k);
                        j = k;
                    }
                    _ => continue 'rule,
                }
            }
            let mut b = i;
            for m in &r.backtrack {
                match self.prev(buf, b, l) {
                    Some(k) if Self::matches(m, buf[k], &classes[0]) => b = k,
                    _ => continue 'rule,
                }
            }
            let mut a = j;
            for m in &r.lookahead {
                match self.next(buf, a, l) {
                    Some(k) if Self::matches(m, buf[k], &classes[2]) => a = k,
                    _ => continue 'rule,
                }
            }
            // matched: apply nested lookups at their sequence positions
            let mut end = j + 1;
            if depth < 6 {
                for act in &r.actions {
                    let Some(&p) = inp.get(act.seq) else { continue };
                    let Some(nl) = layout.lookups.get(act.lookup) else { continue };
                    if p >= buf.len() {
                        continue;
                    }
                    let before = buf.len();
                    if gpos {
                        self.gpos_at(layout, nl, buf, pos, p, depth + 1);
                    } else {
                        self.gsub_at(layout, nl, buf, p, depth + 1);
                    }
                    let after = buf.len();
                    if after != before {
                        let delta = after as isize - before as isize;
                        for q in inp.iter_mut() {
                            if *q > p {
                                *q = (*q as isize + delta).max(p as isize) as usize;
                            }
                        }
                        end = (end as isize + delta).max(i as isize + 1) as usize;
                    }
                }
            }
            return Some(end);
        }
        None
    }

    // ------------------------------------------------------------------ GPOS
    fn add(&self, p: &mut Pos, vr: &ValueRecord) {
        p.xp += self.var(vr.xp);
        p.yp += self.var(vr.yp);
        p.xa += self.var(vr.xa);
        p.ya += self.var(vr.ya);
    }

    pub fn apply_gpos(&self, buf: &mut Vec<u16>, pos: &mut Vec<Pos>, lookups: &[usize]) {
        let Some(layout) = &self.gpos else { return };
        for &li in lookups {
            let Some(l) = layout.lookups.get(li) else { continue };
            let mut i = 0;
            while i < buf.len() {
                if self.skip(buf[i], l) {
                    i += 1;
                    continue;
                }
                i = self.gpos_at(layout, l, buf, pos, i, 0).unwrap_or(i + 1);
            }
        }
    }

    fn gpos_at(&self, layout: &Layout, l: &Lookup, buf: &mut Vec<u16>, pos: &mut Vec<Pos>, i: usize, depth: usize) -> Option<usize> {
        let g = buf[i];
        for st in &l.subs {
            match st {
                Sub::SinglePos(m) => {
                    if let Some(vr) = m.get(&g) {
                        let mut p = pos[i];
                        self.add(&mut p, vr);
                        pos[i] = p;
                        return Some(i + 1);
                    }
                }
                Sub::PairGlyph { sets, vf2 } => {
                    if let Some(set) = sets.get(&g) {
                        let j = self.next(buf, i, l)?;
                        if let Some((_, v1, v2)) = set.iter().find(|(g2, _, _)| *g2 == buf[j]) {
                            let (mut a, mut b) = (pos[i], pos[j]);
                            self.add(&mut a, v1);
                            self.add(&mut b, v2);
                            pos[i] = a;
                            pos[j] = b;
                            return Some(if *vf2 != 0 { j + 1 } else { j });
                        }
                    }
                }
                Sub::PairClass { cov, c1, c2, recs, vf2 } => {
                    if cov.contains(&g) {
                        let j = self.next(buf, i, l)?;
                        let a = c1.get(&g).copied().unwrap_or(0) as usize;
                        let b = c2.get(&buf[j]).copied().unwrap_or(0) as usize;
                        if let Some((v1, v2)) = recs.get(a).and_then(|r| r.get(b)) {
                            let (mut pa, mut pb) = (pos[i], pos[j]);
                            self.add(&mut pa, v1);
                            self.add(&mut pb, v2);
                            pos[i] = pa;
                            pos[j] = pb;
                            // a class pair subtable that covers the first glyph ends the search (also when the record is all zero)
                            return Some(if *vf2 != 0 { j + 1 } else { j });
                        }
                    }
                }
                Sub::Context { cov, rules, classes } => {
                    if !cov.contains(&g) {
                        continue;
                    }
                    if let Some(next) = self.context_at(layout, l, rules, classes, buf, i, depth, true, pos) {
                        return Some(next);
                    }
                }
                Sub::Unsupported(s) => self.unsupported.borrow_mut().push(s.clone()),
                _ => {}
            }
        }
        None
    }

    /// Kerning-style query: total horizontal advance adjustment on `left` when followed by `right`,
    /// applying the given lookups in order (first matching subtable per lookup).
    pub fn pair_adjust(&self, left: u16, right: u16, lookups: &[usize]) -> (Pos, Pos) {
        let mut buf = vec![left, right];
        let mut pos = vec![Pos::default(); 2];
        self.apply_gpos(&mut buf, &mut pos, lookups);
        (pos[0], pos[1])
    }

    /// All attachments the given lookups define for (base, mark): (lookup index, base anchor, mark anchor).
    /// `comp`: ligature component for MarkLig lookups.
    pub fn mark_attachments(&self, lookups: &[usize], base: u16, mark: u16, comp: Option<usize>) -> Vec<(usize, &'static str, (f64, f64), (f64, f64))> {
        let mut out = vec![];
        let Some(layout) = &self.gpos else { return out };
        for &li in lookups {
            let Some(l) = layout.lookups.get(li) else { continue };
            for st in &l.subs {
                let hit = match st {
                    Sub::MarkBase { marks, bases } if comp.is_none() => marks.get(&mark).and_then(|(c, ma)| bases.get(&base).and_then(|row| row.get(*c as usize).copied().flatten()).map(|ba| ("base", ba, *ma))),
                    Sub::MarkMark { marks, bases } if comp.is_none() => marks.get(&mark).and_then(|(c, ma)| bases.get(&base).and_then(|row| row.get(*c as usize).copied().flatten()).map(|ba| ("mark", ba, *ma))),
                    Sub::MarkLig { marks, ligs } => match comp {
                        Some(ci) => marks.get(&mark).and_then(|(c, ma)| ligs.get(&base).and_then(|comps| comps.get(ci)).and_then(|row| row.get(*c as usize).copied().flatten()).map(|ba| ("lig", ba, *ma))),
                        None => None,
                    },
                    _ => None,
                };
                if let Some((kind, ba, ma)) = hit {
                    out.push((li, kind, (self.var(ba.x), self.var(ba.y)), (self.var(ma.x), self.var(ma.y))));
                    break; // first matching subtable of this lookup
                }
            }
        }
        out
    }
}

pub fn shaper_for(font: &write_fonts::read::FontRef, coords: &[f64]) -> R<Shaper> {
    use write_fonts::read::{types::Tag, TableProvider};
    let tbl = |t: &[u8; 4]| font.table_data(Tag::new(t)).map(|d| d.as_bytes().to_vec());
    let gsub = match tbl(b"GSUB") {
        Some(d) => Some(parse_layout(&d, false).map_err(|e| format!("GSUB: {e}"))?),
        None => None,
    };
    let gpos = match tbl(b"GPOS") {
        Some(d) => Some(parse_layout(&d, true).map_err(|e| format!("GPOS: {e}"))?),
        None => None,
    };
    let gdef = match tbl(b"GDEF") {
        Some(d) => parse_gdef(&d).map_err(|e| format!("GDEF: {e}"))?,
        None => Gdef::default(),
    };
    let ivs = match font.gdef().ok().and_then(|g| g.item_var_store()) {
        Some(Ok(s)) => Some(Ivs::new(&s)?),
        Some(Err(e)) => return Err(format!("GDEF variation store: {e}")),
        None => None,
    };
    Ok(Shaper { gsub, gpos, gdef, ivs, coords: coords.to_vec(), alt_index: 1, fractional_seen: Default::default(), unsupported: Default::default() })
}
