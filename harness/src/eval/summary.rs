//! C17: recompute header / summary fields from the tables they summarise.
use std::collections::BTreeMap;

use write_fonts::read::{tables::glyf::Glyph, types::GlyphId, FontRef, TableProvider};

use super::src::cmap_of;

#[derive(Default)]
pub struct Report {
    pub errors: Vec<String>,
    pub fields_checked: usize,
    pub nontrivial: usize,
}

#[derive(Clone, Copy, Debug, PartialEq)]
struct BBox {
    x0: f64,
    y0: f64,
    x1: f64,
    y1: f64,
}

impl BBox {
    fn of(pts: impl Iterator<Item = (f64, f64)>) -> Option<BBox> {
        let mut b: Option<BBox> = None;
        for (x, y) in pts {
            b = Some(match b {
                None => BBox { x0: x, y0: y, x1: x, y1: y },
                Some(b) => BBox { x0: b.x0.min(x), y0: b.y0.min(y), x1: b.x1.max(x), y1: b.y1.max(y) },
            });
        }
        b
    }
    fn union(a: Option<BBox>, b: Option<BBox>) -> Option<BBox> {
        match (a, b) {
            (Some(a), Some(b)) => Some(BBox { x0: a.x0.min(b.x0), y0: a.y0.min(b.y0), x1: a.x1.max(b.x1), y1: a.y1.max(b.y1) }),
            (a, None) => a,
            (None, b) => b,
        }
    }
}

struct G {
    stored: Option<BBox>,
    /// simple: (x, y, on_curve)
    pts: Vec<(f64, f64, bool)>,
    contours: usize,
    comps: Vec<(u32, [f64; 6])>,
}

fn resolve(gid: u32, gs: &BTreeMap<u32, G>, depth: usize, out: &mut Vec<(f64, f64, bool)>, xf: [f64; 6], contours: &mut usize, max_depth: &mut usize) {
    if depth > 32 {
        return;
    }
    let Some(g) = gs.get(&gid) else { return };
    *max_depth = (*max_depth).max(depth);
    if g.comps.is_empty() {
        *contours += g.contours;
        for &(x, y, on) in &g.pts {
            out.push((xf[0] * x + xf[2] * y + xf[4], xf[1] * x + xf[3] * y + xf[5], on));
        }
    }
    for (cg, c) in &g.comps {
        // child transform applied first, then the accumulated one; offsets are unscaled (as this compiler writes them)
        let n = [
            xf[0] * c[0] + xf[2] * c[1],
            xf[1] * c[0] + xf[3] * c[1],
            xf[0] * c[2] + xf[2] * c[3],
            xf[1] * c[2] + xf[3] * c[3],
            xf[0] * c[4] + xf[2] * c[5] + xf[4],
            xf[1] * c[4] + xf[3] * c[5] + xf[5],
        ];
        resolve(*cg, gs, depth + 1, out, n, contours, max_depth);
    }
}

pub fn check(data: &[u8], check_ranges: bool) -> Report {
    let mut rep = Report::default();
    let Ok(font) = FontRef::new(data) else {
        rep.errors.push("unreadable".into());
        return rep;
    };
    let (Ok(head), Ok(maxp), Ok(hhea)) = (font.head(), font.maxp(), font.hhea()) else {
        rep.errors.push("head/maxp/hhea missing".into());
        return rep;
    };
    let ng = maxp.num_glyphs() as u32;
    let (Ok(loca), Ok(glyf)) = (font.loca(Some(head.index_to_loc_format() == 1)), font.glyf()) else {
        rep.errors.push("glyf/loca unreadable".into());
        return rep;
    };
    let mut gs: BTreeMap<u32, G> = BTreeMap::new();
    for gid in 0..ng {
        let mut g = G { stored: None, pts: vec![], contours: 0, comps: vec![] };
        match loca.get_glyf(GlyphId::new(gid), &glyf) {
            Ok(Some(Glyph::Simple(s))) => {
                g.stored = Some(BBox { x0: s.x_min() as f64, y0: s.y_min() as f64, x1: s.x_max() as f64, y1: s.y_max() as f64 });
                g.pts = s.points().map(|p| (p.x as f64, p.y as f64, p.on_curve)).collect();
                g.contours = s.end_pts_of_contours().len();
            }
            Ok(Some(Glyph::Composite(c))) => {
                g.stored = Some(BBox { x0: c.x_min() as f64, y0: c.y_min() as f64, x1: c.x_max() as f64, y1: c.y_max() as f64 });
                for comp in c.components() {
                    use write_fonts::read::tables::glyf::Anchor;
                    let (dx, dy) = match comp.anchor {
                        Anchor::Offset { x, y } => (x as f64, y as f64),
                        Anchor::Point { .. } => (0.0, 0.0),
                    };
                    let t = comp.transform;
                    g.comps.push((comp.glyph.to_u32(), [t.xx.to_f32() as f64, t.yx.to_f32() as f64, t.xy.to_f32() as f64, t.yy.to_f32() as f64, dx, dy]));
                }
            }
            _ => {}
        }
        gs.insert(gid, g);
    }
    let errs = &mut rep.errors;
    let mut checked = 0usize;
    // ---- per-glyph boxes
    let mut union: Option<BBox> = None;
    let (mut max_pts, mut max_ctr, mut max_cpts, mut max_cctr, mut max_elems, mut max_depth_all) = (0usize, 0usize, 0usize, 0usize, 0usize, 0usize);
    for (gid, g) in &gs {
        let Some(stored) = g.stored else { continue };
        union = BBox::union(union, Some(stored));
        let mut pts = vec![];
        let (mut contours, mut depth) = (0usize, 0usize);
        resolve(*gid, &gs, 0, &mut pts, [1.0, 0.0, 0.0, 1.0, 0.0, 0.0], &mut contours, &mut depth);
        let tol = if g.comps.is_empty() { 0.0 } else { 1.0 + depth as f64 };
        let on = BBox::of(pts.iter().filter(|p| p.2).map(|p| (p.0, p.1)));
        let all = BBox::of(pts.iter().map(|p| (p.0, p.1)));
        checked += 1;
        if let (Some(on), Some(all)) = (on, all) {
            // the stored box must cover every on-curve point and not reach beyond the control polygon
            if stored.x0 > on.x0 + tol || stored.y0 > on.y0 + tol || stored.x1 < on.x1 - tol || stored.y1 < on.y1 - tol {
                errs.push(format!("glyph {gid}: stored bbox {stored:?} does not cover its resolved outline {on:?}"));
            } else if stored.x0 < all.x0 - tol || stored.y0 < all.y0 - tol || stored.x1 > all.x1 + tol || stored.y1 > all.y1 + tol {
                errs.push(format!("glyph {gid}: stored bbox {stored:?} is larger than its resolved outline's control box {all:?}"));
            }
        }
        if g.comps.is_empty() {
            max_pts = max_pts.max(g.pts.len());
            max_ctr = max_ctr.max(g.contours);
        } else {
            rep.nontrivial += 1;
            max_cpts = max_cpts.max(pts.len());
            max_cctr = max_cctr.max(contours);
            max_elems = max_elems.max(g.comps.len());
            max_depth_all = max_depth_all.max(depth);
        }
    }
    let hb = BBox { x0: head.x_min() as f64, y0: head.y_min() as f64, x1: head.x_max() as f64, y1: head.y_max() as f64 };
    checked += 1;
    match union {
        Some(u) if u != hb => errs.push(format!("head bbox {hb:?} is not the union of the glyph boxes {u:?}")),
        None if hb != (BBox { x0: 0.0, y0: 0.0, x1: 0.0, y1: 0.0 }) => errs.push(format!("head bbox {hb:?} but no glyph has an outline")),
        _ => {}
    }
    // ---- maxp
    for (name, got, want) in [
        ("maxPoints", maxp.max_points(), max_pts),
        ("maxContours", maxp.max_contours(), max_ctr),
        ("maxCompositePoints", maxp.max_composite_points(), max_cpts),
        ("maxCompositeContours", maxp.max_composite_contours(), max_cctr),
        ("maxComponentElements", maxp.max_component_elements(), max_elems),
        ("maxComponentDepth", maxp.max_component_depth(), max_depth_all),
    ] {
        if let Some(got) = got {
            checked += 1;
            if got as usize != want {
                errs.push(format!("maxp.{name} = {got}, recomputed {want}"));
            }
        }
    }
    // ---- loca format
    let glyf_len = font.table_data(write_fonts::types::Tag::new(b"glyf")).map(|d| d.len()).unwrap_or(0);
    checked += 1;
    let long = head.index_to_loc_format() == 1;
    if !long && glyf_len > 0x1FFFE {
        errs.push(format!("short loca with a {glyf_len}-byte glyf"));
    }
    if long && glyf_len <= 0x1FFFE {
        errs.push(format!("long loca although glyf is only {glyf_len} bytes"));
    }
    // ---- hhea vs hmtx + glyf
    if let Ok(hmtx) = font.hmtx() {
        let advs: Vec<u16> = (0..ng).map(|g| hmtx.advance(GlyphId::new(g)).unwrap_or(0)).collect();
        let lsbs: Vec<i16> = (0..ng).map(|g| hmtx.side_bearing(GlyphId::new(g)).unwrap_or(0)).collect();
        let adv_max = advs.iter().copied().max().unwrap_or(0);
        checked += 5;
        if hhea.advance_width_max().to_u16() != adv_max {
            errs.push(format!("hhea.advanceWidthMax {} but the largest hmtx advance is {adv_max}", hhea.advance_width_max().to_u16()));
        }
        let mut n = ng as usize;
        while n > 1 && advs[n - 1] == advs[n - 2] {
            n -= 1;
        }
        if hhea.number_of_h_metrics() as usize != n.max(1) {
            errs.push(format!("hhea.numberOfHMetrics {} but the trailing equal-advance run gives {}", hhea.number_of_h_metrics(), n.max(1)));
        }
        if n < ng as usize {
            rep.nontrivial += 1;
        }
        let (mut min_lsb, mut min_rsb, mut max_ext): (Option<i32>, Option<i32>, Option<i32>) = (None, None, None);
        for gid in 0..ng {
            let g = &gs[&gid];
            let Some(b) = g.stored else { continue };
            if g.comps.is_empty() && g.pts.is_empty() {
                continue;
            }
            let lsb = lsbs[gid as usize] as i32;
            let w = (b.x1 - b.x0) as i32;
            let rsb = advs[gid as usize] as i32 - lsb - w;
            min_lsb = Some(min_lsb.map_or(lsb, |m| m.min(lsb)));
            min_rsb = Some(min_rsb.map_or(rsb, |m| m.min(rsb)));
            max_ext = Some(max_ext.map_or(lsb + w, |m| m.max(lsb + w)));
            if lsb != b.x0 as i32 && head.flags().bits() & 2 != 0 {
                errs.push(format!("glyph {gid}: lsb {lsb} != xMin {} although head.flags bit 1 (lsb at x=0 ... xMin == lsb) is set", b.x0));
            }
        }
        for (name, got, want) in [
            ("minLeftSideBearing", hhea.min_left_side_bearing().to_i16() as i32, min_lsb.unwrap_or(0)),
            ("minRightSideBearing", hhea.min_right_side_bearing().to_i16() as i32, min_rsb.unwrap_or(0)),
            ("xMaxExtent", hhea.x_max_extent().to_i16() as i32, max_ext.unwrap_or(0)),
        ] {
            if got != want {
                errs.push(format!("hhea.{name} = {got}, recomputed {want}"));
            }
        }
        // ---- OS/2
        if let Ok(os2) = font.os2() {
            let nz: Vec<u32> = advs.iter().filter(|a| **a > 0).map(|a| *a as u32).collect();
            let avg = if nz.is_empty() { 0 } else { ((nz.iter().sum::<u32>() as f64) / nz.len() as f64 + 0.5).floor() as i32 };
            checked += 1;
            if (os2.x_avg_char_width() as i32 - avg).abs() > 0 {
                errs.push(format!("OS/2.xAvgCharWidth {} but the mean of the non-zero advances is {avg}", os2.x_avg_char_width()));
            }
            let cmap = cmap_of(&font);
            if !cmap.is_empty() {
                let first = (*cmap.keys().next().unwrap()).min(0xFFFF) as u16;
                let last = (*cmap.keys().next_back().unwrap()).min(0xFFFF) as u16;
                checked += 2;
                if os2.us_first_char_index() != first {
                    errs.push(format!("OS/2.usFirstCharIndex {:#x} but the smallest mapped codepoint is {first:#x}", os2.us_first_char_index()));
                }
                if os2.us_last_char_index() != last {
                    errs.push(format!("OS/2.usLastCharIndex {:#x} but the largest mapped codepoint (capped at 0xFFFF) is {last:#x}", os2.us_last_char_index()));
                }
                // a committed table of unambiguous Unicode-range bits
                const RANGES: &[(u32, &[(u32, u32)])] = &[
                    (0, &[(0x0000, 0x007F)]),
                    (1, &[(0x0080, 0x00FF)]),
                    (2, &[(0x0100, 0x017F)]),
                    (3, &[(0x0180, 0x024F)]),
                    (7, &[(0x0370, 0x03FF)]),
                    (9, &[(0x0400, 0x04FF), (0x0500, 0x052F), (0x2DE0, 0x2DFF), (0xA640, 0xA69F)]),
                    (10, &[(0x0530, 0x058F)]),
                    (11, &[(0x0590, 0x05FF)]),
                    (24, &[(0x0E00, 0x0E7F)]),
                    (31, &[(0x2000, 0x206F), (0x2E00, 0x2E7F)]),
                    (33, &[(0x20A0, 0x20CF)]),
                    (35, &[(0x2100, 0x214F)]),
                    (37, &[(0x2190, 0x21FF), (0x27F0, 0x27FF), (0x2900, 0x297F), (0x2B00, 0x2BFF)]),
                    (38, &[(0x2200, 0x22FF), (0x2A00, 0x2AFF), (0x27C0, 0x27EF), (0x2980, 0x29FF)]),
                    (45, &[(0x25A0, 0x25FF)]),
                    (48, &[(0x3000, 0x303F)]),
                    (62, &[(0xFB00, 0xFB4F)]),
                    (51, &[(0x31F0, 0x31FF), (0x30A0, 0x30FF)]),
                    (49, &[(0x3040, 0x309F)]),
                    (60, &[(0xE000, 0xF8FF)]),
                ];
                let bits = [os2.ul_unicode_range_1(), os2.ul_unicode_range_2(), os2.ul_unicode_range_3(), os2.ul_unicode_range_4()];
                let is_set = |b: u32| bits[(b / 32) as usize] & (1 << (b % 32)) != 0;
                for (bit, ranges) in RANGES.iter().filter(|_| check_ranges) {
                    let present = cmap.keys().any(|cp| ranges.iter().any(|(lo, hi)| cp >= lo && cp <= hi));
                    checked += 1;
                    if present != is_set(*bit) {
                        errs.push(format!("OS/2 Unicode range bit {bit} is {} but the cmap {} a codepoint in {ranges:x?}", if is_set(*bit) { "set" } else { "clear" }, if present { "has" } else { "lacks" }));
                    }
                }
                let astral = cmap.keys().any(|cp| *cp > 0xFFFF);
                checked += 1;
                if check_ranges && astral != is_set(57) {
                    errs.push(format!("OS/2 Unicode range bit 57 (non-plane-0) is {} but the cmap {} supplementary codepoints", if is_set(57) { "set" } else { "clear" }, if astral { "has" } else { "has no" }));
                }
                if astral {
                    rep.nontrivial += 1;
                }
            }
        }
    }
    // ---- vhea vs vmtx
    if let (Ok(vhea), Ok(vmtx)) = (font.vhea(), font.vmtx()) {
        let advs: Vec<u16> = (0..ng).map(|g| vmtx.advance(GlyphId::new(g)).unwrap_or(0)).collect();
        let tsbs: Vec<i16> = (0..ng).map(|g| vmtx.side_bearing(GlyphId::new(g)).unwrap_or(0)).collect();
        checked += 5;
        let adv_max = advs.iter().copied().max().unwrap_or(0);
        if vhea.advance_height_max().to_u16() != adv_max {
            errs.push(format!("vhea.advanceHeightMax {} but the largest vmtx advance is {adv_max}", vhea.advance_height_max().to_u16()));
        }
        let mut n = ng as usize;
        while n > 1 && advs[n - 1] == advs[n - 2] {
            n -= 1;
        }
        if vhea.number_of_long_ver_metrics() as usize != n.max(1) {
            errs.push(format!("vhea.numOfLongVerMetrics {} but the trailing equal-advance run gives {}", vhea.number_of_long_ver_metrics(), n.max(1)));
        }
        let (mut min_t, mut min_b, mut max_e): (Option<i32>, Option<i32>, Option<i32>) = (None, None, None);
        for gid in 0..ng {
            let g = &gs[&gid];
            let Some(b) = g.stored else { continue };
            if g.comps.is_empty() && g.pts.is_empty() {
                continue;
            }
            let tsb = tsbs[gid as usize] as i32;
            let h = (b.y1 - b.y0) as i32;
            let bsb = advs[gid as usize] as i32 - tsb - h;
            min_t = Some(min_t.map_or(tsb, |m| m.min(tsb)));
            min_b = Some(min_b.map_or(bsb, |m| m.min(bsb)));
            max_e = Some(max_e.map_or(tsb + h, |m| m.max(tsb + h)));
        }
        for (name, got, want) in [
            ("minTopSideBearing", vhea.min_top_side_bearing().to_i16() as i32, min_t.unwrap_or(0)),
            ("minBottomSideBearing", vhea.min_bottom_side_bearing().to_i16() as i32, min_b.unwrap_or(0)),
            ("yMaxExtent", vhea.y_max_extent().to_i16() as i32, max_e.unwrap_or(0)),
        ] {
            if got != want {
                errs.push(format!("vhea.{name} = {got}, recomputed {want}"));
            }
        }
    }
    rep.fields_checked = checked;
    rep
}
