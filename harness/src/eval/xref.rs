//! C05: cross-table consistency of an emitted font (glyph counts, ids in range, acyclic components, maxp).
use std::collections::{BTreeMap, BTreeSet};

use write_fonts::read::{
    tables::{
        glyf::Glyph,
        variations::{DeltaSetIndexMap, ItemVariationStore},
    },
    traversal::{FieldType, SomeTable},
    types::{GlyphId, Tag},
    FontRef, TableProvider,
};

use super::{sfnt, walk::Visit};

#[derive(Default)]
pub struct Report {
    pub errors: Vec<String>,
    pub tables: Vec<String>,
    pub nodes_walked: usize,
    pub num_glyphs: u32,
    pub glyph_ids_checked: usize,
    pub name_ids_checked: usize,
    pub indices_checked: usize,
    pub composites: usize,
    pub max_depth: usize,
}

const REQUIRED: [&[u8; 4]; 10] = [b"cmap", b"glyf", b"head", b"hhea", b"hmtx", b"loca", b"maxp", b"name", b"OS/2", b"post"];

struct StoreInfo {
    regions: usize,
    items: Vec<usize>, // item count per ItemVariationData
}

fn store_info(ivs: &ItemVariationStore, axis_count: usize, what: &str, errs: &mut Vec<String>) -> StoreInfo {
    let mut info = StoreInfo { regions: 0, items: vec![] };
    match ivs.variation_region_list() {
        Ok(rl) => {
            info.regions = rl.region_count() as usize;
            if rl.axis_count() as usize != axis_count {
                errs.push(format!("{what}: region list axisCount {} != fvar axisCount {axis_count}", rl.axis_count()));
            }
            for (i, r) in rl.variation_regions().iter().enumerate() {
                match r {
                    Ok(r) => {
                        for (a, ax) in r.region_axes().iter().enumerate() {
                            let (s, p, e) = (ax.start_coord().to_f32(), ax.peak_coord().to_f32(), ax.end_coord().to_f32());
                            if !(s <= p && p <= e) || s < -1.0 || e > 1.0 || (s < 0.0 && e > 0.0 && p != 0.0) {
                                errs.push(format!("{what}: region {i} axis {a} invalid tent ({s},{p},{e})"));
                            }
                        }
                    }
                    Err(e) => errs.push(format!("{what}: region {i} unreadable: {e}")),
                }
            }
        }
        Err(e) => errs.push(format!("{what}: region list unreadable: {e}")),
    }
    for (i, d) in ivs.item_variation_data().iter().enumerate() {
        match d {
            Some(Ok(d)) => {
                for ri in d.region_indexes() {
                    if ri.get() as usize >= info.regions {
                        errs.push(format!("{what}: ItemVariationData {i} uses region index {} >= {}", ri.get(), info.regions));
                    }
                }
                info.items.push(d.item_count() as usize);
            }
            Some(Err(e)) => {
                errs.push(format!("{what}: ItemVariationData {i} unreadable: {e}"));
                info.items.push(0);
            }
            None => info.items.push(0),
        }
    }
    info
}

fn check_varidx(info: &StoreInfo, outer: usize, inner: usize, what: &str, errs: &mut Vec<String>) {
    if outer == 0xFFFF && inner == 0xFFFF {
        return; // explicit "no variation"
    }
    match info.items.get(outer) {
        None => errs.push(format!("{what}: variation index outer {outer} >= {}", info.items.len())),
        Some(&n) if inner >= n => errs.push(format!("{what}: variation index ({outer},{inner}) inner >= {n}")),
        _ => {}
    }
}

fn check_map(map: &DeltaSetIndexMap, info: &StoreInfo, what: &str, errs: &mut Vec<String>) -> usize {
    let n = match map {
        DeltaSetIndexMap::Format0(m) => m.map_count() as u32,
        DeltaSetIndexMap::Format1(m) => m.map_count(),
    };
    for i in 0..n {
        match map.get(i) {
            Ok(di) => check_varidx(info, di.outer as usize, di.inner as usize, &format!("{what} map[{i}]"), errs),
            Err(e) => {
                errs.push(format!("{what}: map entry {i} unreadable: {e}"));
                break;
            }
        }
    }
    n as usize
}

pub fn check(data: &[u8]) -> Report {
    let mut rep = Report::default();
    let recs = sfnt::walk(data, &mut rep.errors);
    rep.tables = recs.iter().map(|r| sfnt::tag_str(&r.tag)).collect();
    let tags: BTreeSet<[u8; 4]> = recs.iter().map(|r| r.tag).collect();
    for t in REQUIRED {
        if !tags.contains(t) {
            rep.errors.push(format!("required table {} missing", sfnt::tag_str(t)));
        }
    }
    let font = match FontRef::new(data) {
        Ok(f) => f,
        Err(e) => {
            rep.errors.push(format!("read-fonts cannot open the file: {e}"));
            return rep;
        }
    };
    let errs = &mut rep.errors;
    macro_rules! get {
        ($m:ident, $tag:expr) => {
            if tags.contains($tag) {
                match font.$m() {
                    Ok(t) => Some(t),
                    Err(e) => {
                        errs.push(format!("{}: unreadable: {e}", sfnt::tag_str($tag)));
                        None
                    }
                }
            } else {
                None
            }
        };
    }
    let maxp = get!(maxp, b"maxp");
    let head = get!(head, b"head");
    let hhea = get!(hhea, b"hhea");
    let vhea = get!(vhea, b"vhea");
    let post = get!(post, b"post");
    let name = get!(name, b"name");
    let fvar = get!(fvar, b"fvar");
    let avar = get!(avar, b"avar");
    let gvar = get!(gvar, b"gvar");
    let hvar = get!(hvar, b"HVAR");
    let vvar = get!(vvar, b"VVAR");
    let mvar = get!(mvar, b"MVAR");
    let gdef = get!(gdef, b"GDEF");
    let gsub = get!(gsub, b"GSUB");
    let gpos = get!(gpos, b"GPOS");
    let cmap = get!(cmap, b"cmap");
    let os2 = get!(os2, b"OS/2");
    let stat = get!(stat, b"STAT");
    let colr = get!(colr, b"COLR");
    let cpal = get!(cpal, b"CPAL");
    let meta = get!(meta, b"meta");
    let gasp = get!(gasp, b"gasp");
    let base = get!(base, b"BASE");
    let ng = maxp.as_ref().map(|m| m.num_glyphs() as u32).unwrap_or(0);
    rep.num_glyphs = ng;
    if let Some(h) = &head {
        if h.units_per_em() < 16 || h.units_per_em() > 16384 {
            errs.push(format!("head.unitsPerEm {} out of range", h.units_per_em()));
        }
    }

    // ---- glyph-indexed tables agree on the glyph count
    let loca_long = head.as_ref().map(|h| h.index_to_loc_format() == 1);
    let raw = |t: &[u8; 4]| recs.iter().find(|r| &r.tag == t).map(|r| &data[r.offset..(r.offset + r.length).min(data.len())]);
    if let (Some(long), Some(loca_raw)) = (loca_long, raw(b"loca")) {
        let entries = if long { loca_raw.len() / 4 } else { loca_raw.len() / 2 };
        if entries != ng as usize + 1 {
            errs.push(format!("loca has {entries} entries for {ng} glyphs (want numGlyphs+1)"));
        }
        let glyf_len = raw(b"glyf").map(|g| g.len()).unwrap_or(0);
        let mut prev = 0usize;
        for i in 0..entries {
            let off = if long {
                u32::from_be_bytes(loca_raw[i * 4..i * 4 + 4].try_into().unwrap()) as usize
            } else {
                u16::from_be_bytes(loca_raw[i * 2..i * 2 + 2].try_into().unwrap()) as usize * 2
            };
            if off < prev {
                errs.push(format!("loca[{i}] = {off} decreases (previous {prev})"));
            }
            if off > glyf_len {
                errs.push(format!("loca[{i}] = {off} beyond glyf length {glyf_len}"));
            }
            prev = off;
        }
        if !long && glyf_len > 0x1FFFE {
            errs.push(format!("short loca but glyf is {glyf_len} bytes"));
        }
    }
    if let (Some(hhea), Some(hm)) = (&hhea, raw(b"hmtx")) {
        let n = hhea.number_of_h_metrics() as usize;
        if n == 0 || n > ng as usize {
            errs.push(format!("hhea.numberOfHMetrics {n} not in 1..={ng}"));
        } else if hm.len() != 4 * n + 2 * (ng as usize - n) {
            errs.push(format!("hmtx is {} bytes, want {} for {n} long metrics / {ng} glyphs", hm.len(), 4 * n + 2 * (ng as usize - n)));
        }
    }
    if let (Some(vhea), Some(vm)) = (&vhea, raw(b"vmtx")) {
        let n = vhea.number_of_long_ver_metrics() as usize;
        if n == 0 || n > ng as usize {
            errs.push(format!("vhea.numOfLongVerMetrics {n} not in 1..={ng}"));
        } else if vm.len() != 4 * n + 2 * (ng as usize - n) {
            errs.push(format!("vmtx is {} bytes, want {}", vm.len(), 4 * n + 2 * (ng as usize - n)));
        }
    }
    if tags.contains(b"vhea") != tags.contains(b"vmtx") {
        errs.push("vhea and vmtx must come together".into());
    }
    if let Some(post) = &post {
        if let Some(n) = post.num_glyphs() {
            if n as u32 != ng {
                errs.push(format!("post.numGlyphs {n} != maxp.numGlyphs {ng}"));
            }
            if let Some(idx) = post.glyph_name_index() {
                let nstr = post.string_data().map(|s| s.iter().filter(|x| x.is_ok()).count()).unwrap_or(0);
                for (g, i) in idx.iter().enumerate() {
                    let i = i.get() as usize;
                    if i >= 258 + nstr {
                        errs.push(format!("post glyph {g}: name index {i} beyond 258+{nstr} strings"));
                    }
                }
            }
        }
    }
    let axis_count = fvar.as_ref().map(|f| f.axis_count() as usize).unwrap_or(0);
    if let Some(g) = &gvar {
        if g.glyph_count() as u32 != ng {
            errs.push(format!("gvar.glyphCount {} != maxp.numGlyphs {ng}", g.glyph_count()));
        }
        if g.axis_count() as usize != axis_count {
            errs.push(format!("gvar.axisCount {} != fvar.axisCount {axis_count}", g.axis_count()));
        }
        for gid in 0..g.glyph_count() as u32 {
            match g.glyph_variation_data(GlyphId::new(gid)) {
                Ok(Some(vd)) => {
                    for t in vd.tuples() {
                        let peak = t.peak();
                        if peak.values().len() != axis_count {
                            errs.push(format!("gvar glyph {gid}: tuple with {} coords", peak.values().len()));
                        }
                    }
                }
                Ok(None) => {}
                Err(e) => errs.push(format!("gvar glyph {gid}: variation data unreadable: {e}")),
            }
        }
    }
    if fvar.is_some() != (gvar.is_some() || hvar.is_some()) && fvar.is_some() {
        // a variable font with glyphs that never vary still gets gvar from this compiler
        errs.push("fvar present but neither gvar nor HVAR".into());
    }
    if fvar.is_none() {
        for t in [b"gvar", b"HVAR", b"VVAR", b"MVAR", b"avar", b"STAT"] {
            if tags.contains(t) && t != b"STAT" {
                errs.push(format!("{} present without fvar", sfnt::tag_str(t)));
            }
        }
    }
    if let Some(a) = &avar {
        if a.axis_count() as usize != axis_count {
            errs.push(format!("avar.axisCount {} != fvar.axisCount {axis_count}", a.axis_count()));
        }
    }
    // ---- variation stores
    let mut gdef_store = None;
    if let Some(h) = &hvar {
        match h.item_variation_store() {
            Ok(ivs) => {
                let info = store_info(&ivs, axis_count, "HVAR", errs);
                match h.advance_width_mapping() {
                    Some(Ok(m)) => {
                        check_map(&m, &info, "HVAR advance", errs);
                    }
                    Some(Err(e)) => errs.push(format!("HVAR advance map unreadable: {e}")),
                    None => {
                        // direct: gid indexes ItemVariationData 0
                        if info.items.first().copied().unwrap_or(0) != ng as usize {
                            errs.push(format!("HVAR without advance map: ItemVariationData[0] has {} items for {ng} glyphs", info.items.first().copied().unwrap_or(0)));
                        }
                    }
                }
                for (nm, m) in [("lsb", h.lsb_mapping()), ("rsb", h.rsb_mapping())] {
                    if let Some(Ok(m)) = m {
                        check_map(&m, &info, &format!("HVAR {nm}"), errs);
                    }
                }
            }
            Err(e) => errs.push(format!("HVAR store unreadable: {e}")),
        }
    }
    if let Some(v) = &vvar {
        match v.item_variation_store() {
            Ok(ivs) => {
                let info = store_info(&ivs, axis_count, "VVAR", errs);
                match v.advance_height_mapping() {
                    Some(Ok(m)) => {
                        check_map(&m, &info, "VVAR advance", errs);
                    }
                    Some(Err(e)) => errs.push(format!("VVAR advance map unreadable: {e}")),
                    None => {
                        if info.items.first().copied().unwrap_or(0) != ng as usize {
                            errs.push("VVAR without advance map: ItemVariationData[0] item count != numGlyphs".into());
                        }
                    }
                }
            }
            Err(e) => errs.push(format!("VVAR store unreadable: {e}")),
        }
    }
    if let Some(m) = &mvar {
        match m.item_variation_store() {
            Some(Ok(ivs)) => {
                let info = store_info(&ivs, axis_count, "MVAR", errs);
                let mut prev: Option<Tag> = None;
                for r in m.value_records() {
                    check_varidx(&info, r.delta_set_outer_index() as usize, r.delta_set_inner_index() as usize, &format!("MVAR {}", r.value_tag()), errs);
                    if let Some(p) = prev {
                        if p >= r.value_tag() {
                            errs.push(format!("MVAR value records not sorted: {p} before {}", r.value_tag()));
                        }
                    }
                    prev = Some(r.value_tag());
                }
            }
            Some(Err(e)) => errs.push(format!("MVAR store unreadable: {e}")),
            None => {
                if m.value_record_count() > 0 {
                    errs.push("MVAR has value records but no store".into());
                }
            }
        }
    }
    if let Some(g) = &gdef {
        if let Some(Ok(ivs)) = g.item_var_store() {
            gdef_store = Some(store_info(&ivs, axis_count, "GDEF", errs));
        }
    }
    // ---- name ids present in name
    let mut name_ids: BTreeSet<u16> = BTreeSet::new();
    if let Some(n) = &name {
        let mut prev: Option<(u16, u16, u16, u16)> = None;
        for r in n.name_record() {
            let key = (r.platform_id(), r.encoding_id(), r.language_id(), r.name_id().to_u16());
            if let Some(p) = prev {
                if p >= key {
                    errs.push(format!("name records not sorted / duplicated: {p:?} then {key:?}"));
                }
            }
            prev = Some(key);
            match r.string(n.string_data()) {
                Ok(s) => {
                    if s.chars().next().is_some() {
                        name_ids.insert(r.name_id().to_u16());
                    }
                }
                Err(e) => errs.push(format!("name record {key:?}: string unreadable: {e}")),
            }
        }
    }
    // ---- glyf: every glyph parses, components acyclic, maxp maxima respected
    let mut comps: BTreeMap<u32, Vec<u32>> = BTreeMap::new();
    let mut simple: BTreeMap<u32, (usize, usize)> = BTreeMap::new(); // points, contours
    if let (Some(long), Some(_)) = (loca_long, raw(b"glyf")) {
        if let (Ok(loca), Ok(glyf)) = (font.loca(Some(long)), font.glyf()) {
            for gid in 0..ng {
                match loca.get_glyf(GlyphId::new(gid), &glyf) {
                    Ok(None) => {
                        simple.insert(gid, (0, 0));
                    }
                    Ok(Some(Glyph::Simple(s))) => {
                        let np = s.num_points();
                        let nc = s.end_pts_of_contours().len();
                        let mut prev: i32 = -1;
                        for e in s.end_pts_of_contours() {
                            if (e.get() as i32) <= prev {
                                errs.push(format!("glyph {gid}: endPtsOfContours not increasing"));
                            }
                            prev = e.get() as i32;
                        }
                        if s.number_of_contours() as usize != nc {
                            errs.push(format!("glyph {gid}: numberOfContours mismatch"));
                        }
                        let n_read = s.points().count();
                        if n_read != np {
                            errs.push(format!("glyph {gid}: {np} points declared, {n_read} decoded"));
                        }
                        simple.insert(gid, (np, nc));
                    }
                    Ok(Some(Glyph::Composite(c))) => {
                        let mut v = vec![];
                        for comp in c.components() {
                            let g = comp.glyph.to_u32();
                            if g >= ng {
                                errs.push(format!("glyph {gid}: component references glyph {g} >= numGlyphs {ng}"));
                            }
                            v.push(g);
                        }
                        if v.is_empty() {
                            errs.push(format!("glyph {gid}: composite with no components"));
                        }
                        comps.insert(gid, v);
                    }
                    Err(e) => errs.push(format!("glyph {gid}: unreadable: {e}")),
                }
            }
        }
    }
    rep.composites = comps.len();
    // depth / totals by DFS with cycle detection
    #[derive(Clone, Copy, Default)]
    struct Tot {
        points: usize,
        contours: usize,
        depth: usize,
    }
    fn resolve(g: u32, comps: &BTreeMap<u32, Vec<u32>>, simple: &BTreeMap<u32, (usize, usize)>, memo: &mut BTreeMap<u32, Option<Tot>>, stack: &mut Vec<u32>, errs: &mut Vec<String>) -> Option<Tot> {
        if let Some(t) = memo.get(&g) {
            return *t;
        }
        if stack.contains(&g) {
            errs.push(format!("component cycle through glyph {g}: {stack:?}"));
            return None;
        }
        let t = if let Some(cs) = comps.get(&g) {
            stack.push(g);
            let mut tot = Tot::default();
            let mut ok = true;
            for &c in cs {
                match resolve(c, comps, simple, memo, stack, errs) {
                    Some(ct) => {
                        tot.points += ct.points;
                        tot.contours += ct.contours;
                        tot.depth = tot.depth.max(ct.depth + 1);
                    }
                    None => ok = false,
                }
            }
            stack.pop();
            ok.then_some(tot)
        } else {
            simple.get(&g).map(|&(p, c)| Tot { points: p, contours: c, depth: 0 })
        };
        memo.insert(g, t);
        t
    }
    let mut memo = BTreeMap::new();
    if let Some(m) = &maxp {
        for (&g, cs) in &comps {
            let mut stack = vec![];
            if let Some(t) = resolve(g, &comps, &simple, &mut memo, &mut stack, errs) {
                rep.max_depth = rep.max_depth.max(t.depth);
                if let (Some(mp), Some(mc), Some(md), Some(me)) = (m.max_composite_points(), m.max_composite_contours(), m.max_component_depth(), m.max_component_elements()) {
                    if t.points > mp as usize {
                        errs.push(format!("glyph {g}: {} composite points > maxp.maxCompositePoints {mp}", t.points));
                    }
                    if t.contours > mc as usize {
                        errs.push(format!("glyph {g}: {} composite contours > maxp.maxCompositeContours {mc}", t.contours));
                    }
                    if t.depth > md as usize {
                        errs.push(format!("glyph {g}: component depth {} > maxp.maxComponentDepth {md}", t.depth));
                    }
                    if cs.len() > me as usize {
                        errs.push(format!("glyph {g}: {} components > maxp.maxComponentElements {me}", cs.len()));
                    }
                }
            }
        }
        for (&g, &(p, c)) in &simple {
            if let (Some(mp), Some(mc)) = (m.max_points(), m.max_contours()) {
                if p > mp as usize {
                    errs.push(format!("glyph {g}: {p} points > maxp.maxPoints {mp}"));
                }
                if c > mc as usize {
                    errs.push(format!("glyph {g}: {c} contours > maxp.maxContours {mc}"));
                }
            }
        }
    }
    // ---- cmap: every mapped glyph id in range
    if let Some(c) = &cmap {
        let mut any = false;
        for rec in c.encoding_records() {
            match rec.subtable(c.offset_data()) {
                Ok(st) => {
                    use write_fonts::read::tables::cmap::CmapSubtable;
                    match &st {
                        CmapSubtable::Format4(t) => {
                            any = true;
                            for (cp, g) in t.iter() {
                                rep.glyph_ids_checked += 1;
                                if g.to_u32() >= ng {
                                    errs.push(format!("cmap4 U+{cp:04X} -> glyph {} >= {ng}", g.to_u32()));
                                }
                            }
                        }
                        CmapSubtable::Format12(t) => {
                            any = true;
                            for (cp, g) in t.iter() {
                                rep.glyph_ids_checked += 1;
                                if g.to_u32() >= ng {
                                    errs.push(format!("cmap12 U+{cp:04X} -> glyph {} >= {ng}", g.to_u32()));
                                }
                            }
                        }
                        CmapSubtable::Format14(_) => {}
                        _ => {}
                    }
                }
                Err(e) => errs.push(format!("cmap subtable unreadable: {e}")),
            }
        }
        let _ = any; // a font without codepoints legitimately has an empty cmap
    }
    // ---- generic traversal of every table, with per-field range checks
    let feature_counts = |t: &str| -> (usize, usize) {
        match t {
            "GSUB" => gsub.as_ref().map(|g| (g.lookup_list().map(|l| l.lookup_count() as usize).unwrap_or(0), g.feature_list().map(|l| l.feature_count() as usize).unwrap_or(0))).unwrap_or((0, 0)),
            "GPOS" => gpos.as_ref().map(|g| (g.lookup_list().map(|l| l.lookup_count() as usize).unwrap_or(0), g.feature_list().map(|l| l.feature_count() as usize).unwrap_or(0))).unwrap_or((0, 0)),
            _ => (0, 0),
        }
    };
    let mark_sets = gdef.as_ref().and_then(|g| g.mark_glyph_sets_def()).and_then(|m| m.ok()).map(|m| m.mark_glyph_set_count() as usize);
    let tabs: Vec<(&str, Option<Box<dyn SomeTable + '_>>)> = vec![
        ("head", head.clone().map(|t| Box::new(t) as Box<dyn SomeTable>)),
        ("hhea", hhea.clone().map(|t| Box::new(t) as Box<dyn SomeTable>)),
        ("vhea", vhea.clone().map(|t| Box::new(t) as Box<dyn SomeTable>)),
        ("maxp", maxp.clone().map(|t| Box::new(t) as Box<dyn SomeTable>)),
        ("OS/2", os2.clone().map(|t| Box::new(t) as Box<dyn SomeTable>)),
        ("post", post.clone().map(|t| Box::new(t) as Box<dyn SomeTable>)),
        ("name", name.clone().map(|t| Box::new(t) as Box<dyn SomeTable>)),
        ("cmap", cmap.clone().map(|t| Box::new(t) as Box<dyn SomeTable>)),
        ("fvar", fvar.clone().map(|t| Box::new(t) as Box<dyn SomeTable>)),
        ("avar", avar.clone().map(|t| Box::new(t) as Box<dyn SomeTable>)),
        ("HVAR", hvar.clone().map(|t| Box::new(t) as Box<dyn SomeTable>)),
        ("VVAR", vvar.clone().map(|t| Box::new(t) as Box<dyn SomeTable>)),
        ("MVAR", mvar.clone().map(|t| Box::new(t) as Box<dyn SomeTable>)),
        ("STAT", stat.clone().map(|t| Box::new(t) as Box<dyn SomeTable>)),
        ("GDEF", gdef.clone().map(|t| Box::new(t) as Box<dyn SomeTable>)),
        ("GSUB", gsub.clone().map(|t| Box::new(t) as Box<dyn SomeTable>)),
        ("GPOS", gpos.clone().map(|t| Box::new(t) as Box<dyn SomeTable>)),
        ("COLR", colr.clone().map(|t| Box::new(t) as Box<dyn SomeTable>)),
        ("CPAL", cpal.clone().map(|t| Box::new(t) as Box<dyn SomeTable>)),
        ("meta", meta.clone().map(|t| Box::new(t) as Box<dyn SomeTable>)),
        ("gasp", gasp.clone().map(|t| Box::new(t) as Box<dyn SomeTable>)),
        ("BASE", base.clone().map(|t| Box::new(t) as Box<dyn SomeTable>)),
    ];
    for (tname, t) in tabs {
        let Some(t) = t else { continue };
        let (lookups, features) = feature_counts(tname);
        let mut local: Vec<String> = vec![];
        let (mut gids, mut nids, mut idxs) = (0usize, 0usize, 0usize);
        let mut pending_outer: Option<usize> = None;
        {
            let mut on_field = |ty: &str, f: &str, v: &FieldType<'_>| match v {
                FieldType::GlyphId16(g) => {
                    gids += 1;
                    if g.to_u32() >= ng {
                        local.push(format!("{tname}/{ty}.{f}: glyph id {} >= numGlyphs {ng}", g.to_u32()));
                    }
                }
                FieldType::NameId(n) if tname != "name" => {
                    let id = n.to_u16();
                    if id != 0xFFFF && !(id == 0 && tname != "fvar" && tname != "STAT") {
                        nids += 1;
                        if !name_ids.contains(&id) {
                            local.push(format!("{tname}/{ty}.{f}: name id {id} has no non-empty record in name"));
                        }
                    }
                }
                FieldType::U16(x) => {
                    let x = *x as usize;
                    match f {
                        "lookup_list_index" | "lookup_list_indices" if lookups > 0 || tname == "GSUB" || tname == "GPOS" => {
                            idxs += 1;
                            if x >= lookups {
                                local.push(format!("{tname}/{ty}.{f}: lookup index {x} >= lookupCount {lookups}"));
                            }
                        }
                        "feature_indices" | "feature_index" if tname == "GSUB" || tname == "GPOS" => {
                            idxs += 1;
                            if x >= features {
                                local.push(format!("{tname}/{ty}.{f}: feature index {x} >= featureCount {features}"));
                            }
                        }
                        "required_feature_index" if tname == "GSUB" || tname == "GPOS" => {
                            idxs += 1;
                            if x != 0xFFFF && x >= features {
                                local.push(format!("{tname}/{ty}.{f}: required feature index {x} >= featureCount {features}"));
                            }
                        }
                        "axis_index" if ty.starts_with("ConditionFormat") => {
                            idxs += 1;
                            if x >= axis_count {
                                local.push(format!("{tname}/{ty}.{f}: axis index {x} >= axisCount {axis_count}"));
                            }
                        }
                        "mark_filtering_set" => {
                            idxs += 1;
                            match mark_sets {
                                Some(n) if x < n => {}
                                _ => local.push(format!("{tname}/{ty}.{f}: mark filtering set {x} not defined in GDEF ({mark_sets:?})")),
                            }
                        }
                        "delta_set_outer_index" if ty == "VariationIndex" => pending_outer = Some(x),
                        "delta_set_inner_index" if ty == "VariationIndex" => {
                            idxs += 1;
                            match (&gdef_store, pending_outer.take()) {
                                (Some(info), Some(o)) => check_varidx(info, o, x, &format!("{tname}/VariationIndex"), &mut local),
                                (None, Some(o)) => local.push(format!("{tname}: VariationIndex ({o},{x}) but GDEF has no variation store")),
                                _ => {}
                            }
                        }
                        _ => {}
                    }
                }
                _ => {}
            };
            let mut v = Visit { on_field: &mut on_field, errors: vec![], nodes: 0, max_nodes: 3_000_000 };
            v.table(t.as_ref(), tname, 0);
            rep.nodes_walked += v.nodes;
            let verrs = std::mem::take(&mut v.errors);
            drop(v);
            // read-fonts' generic traversal resolves device offsets of value records nested in class records
            // against the wrong base; those are checked by the typed GPOS evaluator (otl.rs) instead
            local.extend(verrs.into_iter().filter(|e| !(e.contains("value_record") && e.contains("_device:"))));
        }
        rep.glyph_ids_checked += gids;
        rep.name_ids_checked += nids;
        rep.indices_checked += idxs;
        errs.extend(local);
    }
    // FeatureTableSubstitution records sorted by feature index (spec requirement)
    for (tname, fv) in [("GSUB", gsub.as_ref().and_then(|g| g.feature_variations()).and_then(|f| f.ok())), ("GPOS", gpos.as_ref().and_then(|g| g.feature_variations()).and_then(|f| f.ok()))] {
        if let Some(fv) = fv {
            for (i, rec) in fv.feature_variation_records().iter().enumerate() {
                if let Some(Ok(subst)) = rec.feature_table_substitution(fv.offset_data()) {
                    let idx: Vec<u16> = subst.substitutions().iter().map(|s| s.feature_index()).collect();
                    if idx.windows(2).any(|w| w[0] >= w[1]) {
                        errs.push(format!("{tname} FeatureVariations record {i}: substitution records not in increasing feature-index order: {idx:?}"));
                    }
                }
            }
        }
    }
    // script/feature/lang records sorted
    rep
}
