//! Raw sfnt container walker: no font library involved.

pub struct TableRec {
    pub tag: [u8; 4],
    pub checksum: u32,
    pub offset: usize,
    pub length: usize,
}

pub fn tag_str(t: &[u8; 4]) -> String {
    t.iter().map(|&b| if (0x20..0x7f).contains(&b) { b as char } else { '?' }).collect()
}

fn be16(d: &[u8], o: usize) -> Option<u16> {
    d.get(o..o + 2).map(|b| u16::from_be_bytes([b[0], b[1]]))
}
fn be32(d: &[u8], o: usize) -> Option<u32> {
    d.get(o..o + 4).map(|b| u32::from_be_bytes([b[0], b[1], b[2], b[3]]))
}

pub fn checksum(data: &[u8]) -> u32 {
    let mut sum = 0u32;
    let mut chunks = data.chunks_exact(4);
    for c in &mut chunks {
        sum = sum.wrapping_add(u32::from_be_bytes([c[0], c[1], c[2], c[3]]));
    }
    let rem = chunks.remainder();
    if !rem.is_empty() {
        let mut last = [0u8; 4];
        last[..rem.len()].copy_from_slice(rem);
        sum = sum.wrapping_add(u32::from_be_bytes(last));
    }
    sum
}

/// Returns the table records and appends container-level problems to `errs`.
pub fn walk(d: &[u8], errs: &mut Vec<String>) -> Vec<TableRec> {
    let mut out = Vec::new();
    let Some(version) = be32(d, 0) else {
        errs.push("file shorter than an sfnt header".into());
        return out;
    };
    if version != 0x0001_0000 {
        errs.push(format!("sfnt version {version:#010x} is not TrueType 0x00010000"));
    }
    let n = be16(d, 4).unwrap_or(0) as usize;
    if n == 0 {
        errs.push("no tables".into());
        return out;
    }
    let pow = (n as u32).ilog2();
    let search_range = 16u32 << pow;
    let (sr, es, rs) = (be16(d, 6), be16(d, 8), be16(d, 10));
    if sr != Some(search_range as u16) || es != Some(pow as u16) || rs != Some((n as u32 * 16 - search_range) as u16) {
        errs.push(format!("binary-search header wrong: searchRange {sr:?} entrySelector {es:?} rangeShift {rs:?} for {n} tables"));
    }
    let dir_end = 12 + 16 * n;
    if d.len() < dir_end {
        errs.push("table directory runs past end of file".into());
        return out;
    }
    for i in 0..n {
        let o = 12 + 16 * i;
        let tag = [d[o], d[o + 1], d[o + 2], d[o + 3]];
        out.push(TableRec {
            tag,
            checksum: be32(d, o + 4).unwrap(),
            offset: be32(d, o + 8).unwrap() as usize,
            length: be32(d, o + 12).unwrap() as usize,
        });
    }
    for w in out.windows(2) {
        if w[0].tag >= w[1].tag {
            errs.push(format!("directory not strictly sorted: {} before {}", tag_str(&w[0].tag), tag_str(&w[1].tag)));
        }
    }
    let mut spans: Vec<(usize, usize, String)> = Vec::new();
    for r in &out {
        let t = tag_str(&r.tag);
        if r.offset % 4 != 0 {
            errs.push(format!("{t}: offset {} not 4-byte aligned", r.offset));
        }
        if r.offset < dir_end {
            errs.push(format!("{t}: offset {} inside the directory", r.offset));
        }
        let Some(end) = r.offset.checked_add(r.length) else {
            errs.push(format!("{t}: offset+length overflows"));
            continue;
        };
        if end > d.len() {
            errs.push(format!("{t}: [{}, {end}) runs past end of file ({})", r.offset, d.len()));
            continue;
        }
        let padded = (end + 3) & !3;
        if padded > d.len() {
            errs.push(format!("{t}: missing padding after table (file ends at {})", d.len()));
        } else if d[end..padded].iter().any(|&b| b != 0) {
            errs.push(format!("{t}: non-zero padding bytes"));
        }
        let body = &d[r.offset..end];
        let sum = if &r.tag == b"head" && body.len() >= 12 {
            let mut h = body.to_vec();
            h[8..12].fill(0);
            checksum(&h)
        } else {
            checksum(body)
        };
        if sum != r.checksum {
            errs.push(format!("{t}: checksum {:#010x} but directory says {:#010x}", sum, r.checksum));
        }
        spans.push((r.offset, padded.min(d.len()), t));
    }
    spans.sort();
    for w in spans.windows(2) {
        if w[0].1 > w[1].0 {
            errs.push(format!("tables {} and {} overlap", w[0].2, w[1].2));
        }
    }
    if let Some(last) = spans.last() {
        if last.1 != d.len() {
            errs.push(format!("{} trailing bytes after the last table", d.len() as i64 - last.1 as i64));
        }
    }
    if let Some(h) = out.iter().find(|r| &r.tag == b"head") {
        if h.length >= 12 && h.offset + 12 <= d.len() {
            let mut whole = d.to_vec();
            whole[h.offset + 8..h.offset + 12].fill(0);
            let want = 0xB1B0_AFBAu32.wrapping_sub(checksum(&whole));
            let got = be32(d, h.offset + 8).unwrap();
            if want != got {
                errs.push(format!("head.checkSumAdjustment {got:#010x}, computed {want:#010x}"));
            }
            if be32(d, h.offset + 12) != Some(0x5F0F_3CF5) {
                errs.push("head.magicNumber wrong".into());
            }
        }
    }
    out
}
