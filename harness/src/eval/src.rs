//! Oracles that compare an emitted font with the generator's manifest (the source ground truth):
//! C06 glyph set / order / cmap, C08 axes + avar, C03 outlines at masters, C04 advances and global metrics.
use std::collections::{BTreeMap, BTreeSet, HashMap};

use serde_json::{json, Value};
use write_fonts::read::{types::GlyphId, FontRef, TableProvider};

use super::vf::{self, q14, Ivs};

pub fn ot_round(v: f64) -> f64 {
    (v + 0.5).floor()
}

pub fn f(v: &Value) -> f64 {
    v.as_f64().unwrap_or(0.0)
}

pub struct Axis {
    pub tag: String,
    pub min: f64,
    pub default: f64,
    pub max: f64,
    pub map: Vec<(f64, f64)>,
}

impl Axis {
    pub fn user_to_design(&self, u: f64) -> f64 {
        let m = &self.map;
        if m.is_empty() {
            return u;
        }
        if u <= m[0].0 {
            return m[0].1;
        }
        for w in m.windows(2) {
            if u <= w[1].0 {
                return if w[1].0 == w[0].0 { w[0].1 } else { w[0].1 + (w[1].1 - w[0].1) * (u - w[0].0) / (w[1].0 - w[0].0) };
            }
        }
        m[m.len() - 1].1
    }
    pub fn design_bounds(&self) -> (f64, f64, f64) {
        (self.user_to_design(self.min), self.user_to_design(self.default), self.user_to_design(self.max))
    }
    pub fn normalize_design(&self, d: f64) -> f64 {
        let (lo, df, hi) = self.design_bounds();
        if d < df {
            if df == lo { 0.0 } else { -(df - d) / (df - lo) }
        } else if d > df {
            if hi == df { 0.0 } else { (d - df) / (hi - df) }
        } else {
            0.0
        }
    }
}

/// The source axes that vary (point axes - min == default == max - are dropped: no table is indexed by them).
pub fn axes_of(man: &Value) -> Vec<Axis> {
    axes_of_all(man).into_iter().filter(|a| !(a.min == a.default && a.default == a.max)).collect()
}

pub fn axes_of_all(man: &Value) -> Vec<Axis> {
    man["axes"]
        .as_array()
        .map(|a| {
            a.iter()
                .map(|x| Axis {
                    tag: x["tag"].as_str().unwrap_or("").to_string(),
                    min: f(&x["min"]),
                    default: f(&x["default"]),
                    max: f(&x["max"]),
                    map: x["map"].as_array().map(|m| m.iter().map(|p| (f(&p[0]), f(&p[1]))).collect()).unwrap_or_default(),
                })
                .collect()
        })
        .unwrap_or_default()
}

/// Expected glyph order per the documented rules: .notdef, then declared & exported in declared order,
/// then remaining exported in sorted order.
pub fn expected_order(man: &Value) -> Vec<String> {
    let glyphs = man["glyphs"].as_array().cloned().unwrap_or_default();
    let names: Vec<String> = glyphs.iter().map(|g| g["name"].as_str().unwrap().to_string()).collect();
    let exported: BTreeSet<String> = glyphs.iter().filter(|g| g["export"].as_bool().unwrap_or(true)).map(|g| g["name"].as_str().unwrap().to_string()).collect();
    let all: BTreeSet<String> = names.iter().cloned().collect();
    let mut prelim: Vec<String> = vec![];
    if let Some(declared) = man["lib"]["public.glyphOrder"].as_array() {
        for d in declared {
            let d = d.as_str().unwrap_or("").to_string();
            if all.contains(&d) && !prelim.contains(&d) {
                prelim.push(d);
            }
        }
    }
    let mut rest: Vec<String> = all.iter().filter(|n| !prelim.contains(n)).cloned().collect();
    rest.sort(); // byte-wise string order
    if man["format"].as_str() == Some("glyphs") {
        // a Glyphs source: glyphOrder entries, then everything else in file order
        rest = names.iter().filter(|n| !prelim.contains(n)).cloned().collect();
    }
    prelim.extend(rest);
    let mut order: Vec<String> = prelim.into_iter().filter(|n| exported.contains(n)).collect();
    order.retain(|n| n != ".notdef");
    order.insert(0, ".notdef".to_string());
    order
}

#[derive(Default)]
pub struct Out {
    pub v: BTreeMap<&'static str, Vec<String>>,
    pub stats: BTreeMap<String, f64>,
    pub skipped: Vec<String>,
}

impl Out {
    pub fn viol(&mut self, prop: &'static str, msg: String) {
        let l = self.v.entry(prop).or_default();
        if l.len() < 40 {
            l.push(msg);
        }
    }
    pub fn stat(&mut self, k: &str, n: f64) {
        *self.stats.entry(k.to_string()).or_default() += n;
    }
}

pub fn post_names(font: &FontRef, n: u32) -> Vec<String> {
    let mut out = vec![];
    if let Ok(post) = font.post() {
        for g in 0..n {
            out.push(post.glyph_name(write_fonts::read::types::GlyphId16::new(g as u16)).map(|s| s.to_string()).unwrap_or_default());
        }
    }
    out
}

pub fn cmap_of(font: &FontRef) -> BTreeMap<u32, u32> {
    use write_fonts::read::tables::cmap::CmapSubtable;
    let mut best: BTreeMap<u32, u32> = BTreeMap::new();
    let mut has12 = false;
    if let Ok(c) = font.cmap() {
        for rec in c.encoding_records() {
            if let Ok(st) = rec.subtable(c.offset_data()) {
                match st {
                    CmapSubtable::Format12(t) => {
                        if !has12 {
                            best.clear();
                        }
                        has12 = true;
                        for (cp, g) in t.iter() {
                            best.insert(cp, g.to_u32());
                        }
                    }
                    CmapSubtable::Format4(t) if !has12 => {
                        // (the mandatory 0xFFFF end segment maps to glyph 0 = unmapped)
                        for (cp, g) in t.iter() {
                            if !(cp == 0xFFFF && g.to_u32() == 0) {
                                best.insert(cp, g.to_u32());
                            }
                        }
                    }
                    _ => {}
                }
            }
        }
    }
    best
}

/// All manifest-based checks. `opts` = the fontc options the font was built with.
pub fn check(data: &[u8], man: &Value, opts: &[String]) -> Out {
    let mut out = Out::default();
    let font = match FontRef::new(data) {
        Ok(f) => f,
        Err(e) => {
            out.viol("C05", format!("unreadable font: {e}"));
            return out;
        }
    };
    let ng = font.maxp().map(|m| m.num_glyphs() as u32).unwrap_or(0);
    let no_prod = opts.iter().any(|o| o == "--no-production-names");
    let prefer_simple_false = opts.iter().any(|o| o == "--prefer-simple-glyphs=false");
    let glyphs = man["glyphs"].as_array().cloned().unwrap_or_default();
    let by_name: HashMap<String, &Value> = glyphs.iter().map(|g| (g["name"].as_str().unwrap().to_string(), g)).collect();

    // ---------------------------------------------------------------- C06
    let expected = expected_order(man);
    let names = post_names(&font, ng);
    let mut gid_of: HashMap<String, u32> = HashMap::new();
    let mut order_ok = true;
    if (ng as usize) < expected.len() {
        out.viol("C06", format!("font has {ng} glyphs, the source declares {} exported (+.notdef): {:?}", expected.len(), expected));
        order_ok = false;
    } else {
        for (i, n) in expected.iter().enumerate() {
            gid_of.insert(n.clone(), i as u32);
        }
        let extra = ng as usize - expected.len();
        if extra > 0 && !prefer_simple_false {
            out.viol("C06", format!("font has {extra} glyphs beyond the source's exported set: {:?}", &names[expected.len().min(names.len())..]));
        }
    }
    if no_prod && order_ok {
        for (i, n) in expected.iter().enumerate() {
            if names.get(i) != Some(n) {
                out.viol("C06", format!("glyph {i} is '{}' but the source order puts '{n}' there (expected order {:?})", names.get(i).cloned().unwrap_or_default(), expected));
                order_ok = false;
                break;
            }
        }
        if prefer_simple_false {
            for n in names.iter().skip(expected.len()) {
                let ok = n.rsplit_once('.').map(|(base, num)| num.chars().all(|c| c.is_ascii_digit()) && !num.is_empty() && by_name.get(base).map(|g| g["export"].as_bool().unwrap_or(true)).unwrap_or(false)).unwrap_or(false);
                if !ok {
                    out.viol("C06", format!("extra glyph '{n}' is not a derivative <exported>.<n> of a source glyph"));
                }
            }
        }
        for g in &glyphs {
            if !g["export"].as_bool().unwrap_or(true) && names.iter().any(|n| n == g["name"].as_str().unwrap()) {
                out.viol("C06", format!("non-exported glyph '{}' is in the font", g["name"].as_str().unwrap()));
            }
        }
    }
    // post names unique (1:1)
    {
        let mut seen = BTreeSet::new();
        for n in &names {
            if !seen.insert(n.clone()) {
                out.viol("C06", format!("post glyph name '{n}' used for more than one glyph"));
            }
        }
        if names.len() as u32 != ng && font.post().map(|p| p.version().to_major_minor() == (2, 0)).unwrap_or(false) {
            out.viol("C06", format!("post has {} names for {ng} glyphs", names.len()));
        }
    }
    // explicit production names
    if !no_prod && order_ok {
        if let Some(ps) = man["lib"]["public.postscriptNames"].as_object() {
            for (src, prod) in ps {
                if let Some(&gid) = gid_of.get(src) {
                    // several glyphs may ask for one name: all but one get a numeric suffix (uniqueness is asserted above)
                    let want = prod.as_str().unwrap_or("");
                    let shared = ps.values().filter(|v| v.as_str() == Some(want)).count() > 1;
                    let got = names.get(gid as usize).map(|s| s.as_str()).unwrap_or("");
                    let suffixed = got.strip_prefix(want).and_then(|r| r.strip_prefix('.')).map(|n| !n.is_empty() && n.chars().all(|c| c.is_ascii_digit())).unwrap_or(false);
                    if !(got == want || (shared && suffixed)) {
                        out.viol("C06", format!("glyph '{src}' should be renamed '{}' (public.postscriptNames) but post has '{}'", prod.as_str().unwrap_or(""), names.get(gid as usize).cloned().unwrap_or_default()));
                    }
                }
            }
        }
    }
    // cmap
    if order_ok {
        let cmap = cmap_of(&font);
        let mut want: BTreeMap<u32, u32> = BTreeMap::new();
        for g in &glyphs {
            if !g["export"].as_bool().unwrap_or(true) {
                continue;
            }
            if let (Some(us), Some(&gid)) = (g["unicodes"].as_array(), gid_of.get(g["name"].as_str().unwrap())) {
                for u in us {
                    want.insert(u.as_u64().unwrap_or(0) as u32, gid);
                }
            }
        }
        for (cp, gid) in &want {
            match cmap.get(cp) {
                Some(g) if g == gid => {}
                Some(g) => out.viol("C06", format!("cmap maps U+{cp:04X} to glyph {g}, the source gives it to glyph {gid} ('{}')", expected[*gid as usize])),
                None => out.viol("C06", format!("cmap lacks U+{cp:04X} of exported glyph '{}'", expected[*gid as usize])),
            }
        }
        for (cp, g) in &cmap {
            if !want.contains_key(cp) {
                out.viol("C06", format!("cmap maps U+{cp:04X} (to glyph {g}) which no exported source glyph has"));
            }
        }
        out.stat("c06_codepoints", want.len() as f64);
        out.stat("c06_glyphs", expected.len() as f64);
        let declared: Vec<String> = man["lib"]["public.glyphOrder"].as_array().map(|a| a.iter().map(|s| s.as_str().unwrap_or("").to_string()).collect()).unwrap_or_default();
        let mut sorted = expected.clone();
        sorted[1..].sort();
        if expected[1..] != declared[..] && expected != sorted {
            out.stat("c06_nontrivial_order", 1.0);
        }
    }

    // ---------------------------------------------------------------- C08
    // An axis on which nothing varies (min == default == max, a "point" axis) may be left out of fvar - the statement
    // is about the axes the font has; when it is kept it must still carry the source's bounds.  Every other axis must
    // be there, in source order, and everything below pairs source and font axes by tag through that order.
    let all_axes = axes_of_all(man);
    let all_fvar = if all_axes.is_empty() { vec![] } else { vf::axes(&font).unwrap_or_default() };
    let is_point = |a: &Axis| a.min == a.default && a.default == a.max;
    let in_font: Vec<&Axis> = all_axes.iter().filter(|a| !is_point(a) || all_fvar.iter().any(|fa| fa.tag == a.tag)).collect();
    if all_axes.iter().any(is_point) {
        out.stat("c08_point_axes", all_axes.iter().filter(|a| is_point(a)).count() as f64);
    }
    if !all_axes.is_empty() {
        if let (Ok(fvar), Ok(avar)) = (font.fvar(), font.avar()) {
            if avar.axis_segment_maps().iter().count() != fvar.axis_count() as usize {
                out.viol("C08", format!("avar has {} segment maps for {} fvar axes", avar.axis_segment_maps().iter().count(), fvar.axis_count()));
            }
        }
    }
    let axes = axes_of(man);
    let fvar_axes = all_fvar;
    if !all_axes.is_empty() {
        if fvar_axes.len() != in_font.len() || fvar_axes.iter().zip(&in_font).any(|(fa, a)| fa.tag != a.tag) {
            out.viol("C08", format!("fvar axes {:?} but the source has {:?}", fvar_axes.iter().map(|a| a.tag.clone()).collect::<Vec<_>>(), in_font.iter().map(|a| a.tag.clone()).collect::<Vec<_>>()));
        }
        for (a, fa) in in_font.iter().map(|a| *a).zip(&fvar_axes) {
            // fvar stores 16.16 fixed point and the compiler carries user coordinates as f32
            let fx = |x: f64, y: f64| (x - y).abs() > (1.0f64 / 65536.0).max(x.abs() / 8388608.0);
            if a.tag != fa.tag || fx(a.min, fa.min) || fx(a.default, fa.default) || fx(a.max, fa.max) {
                out.viol("C08", format!("fvar axis {} ({},{},{}) but the source says {} ({},{},{})", fa.tag, fa.min, fa.default, fa.max, a.tag, a.min, a.default, a.max));
                continue;
            }
            let (dlo, ddf, dhi) = a.design_bounds();
            let flat_lo = a.min < a.default && dlo == ddf;
            let flat_hi = a.max > a.default && dhi == ddf;
            if !fa.segments.is_empty() {
                let s = &fa.segments;
                for need in [(-1.0, -1.0), (0.0, 0.0), (1.0, 1.0)] {
                    let side_degenerate = (need.0 < 0.0 && (flat_lo || a.min == a.default)) || (need.0 > 0.0 && (flat_hi || a.max == a.default));
                    if !s.contains(&need) && !side_degenerate {
                        out.viol("C08", format!("avar segment map of {} lacks {:?}: {:?}", a.tag, need, s));
                    }
                }
                for w in s.windows(2) {
                    if w[1].0 < w[0].0 || w[1].1 < w[0].1 {
                        out.viol("C08", format!("avar segment map of {} decreases: {:?}", a.tag, s));
                        break;
                    }
                }
            }
            if flat_lo || flat_hi {
                out.skipped.push(format!("axis {}: flat first/last map segment (finding F9), that side not asserted", a.tag));
            }
            // sample user coordinates: nodes, midpoints, +-eps, random-ish
            let mut us: Vec<f64> = vec![a.min, a.default, a.max];
            let nodes: Vec<f64> = a.map.iter().map(|p| p.0).filter(|u| *u >= a.min && *u <= a.max).collect();
            for w in nodes.windows(2) {
                us.push((w[0] + w[1]) / 2.0);
                us.push(w[0] + (w[1] - w[0]) * 0.123);
                us.push(w[1] - (w[1] - w[0]) * 0.071);
            }
            us.extend(nodes.iter().copied());
            for k in 1..8 {
                us.push(a.min + (a.max - a.min) * k as f64 / 8.3);
            }
            for u in us {
                if u < a.min || u > a.max {
                    continue;
                }
                if (u < a.default && flat_lo) || (u > a.default && flat_hi) {
                    continue;
                }
                let x = fa.default_normalize(u);
                let got = fa.avar(x);
                let want = a.normalize_design(a.user_to_design(u));
                // local slope of the composite map in normalized space
                let eps = (a.max - a.min) * 1e-4;
                let (u0, u1) = ((u - eps).max(a.min), (u + eps).min(a.max));
                // (the steeper one-sided slope: at a bend the two sides differ).  Three F2Dot14 roundings meet: the
                // coordinate being normalized and the stop's input (each half a quantum, magnified by the slope), and
                // the stop's output (half a quantum) - no cap on the slope, a 200x segment really is that coarse
                let sl = |p: f64, q: f64| {
                    let dx = (fa.default_normalize(q) - fa.default_normalize(p)).abs().max(1e-9);
                    (a.normalize_design(a.user_to_design(q)) - a.normalize_design(a.user_to_design(p))).abs() / dx
                };
                let slope = if u1 > u0 { sl(u0, u).max(sl(u, u1)).max(sl(u0, u1)) } else { 1.0 };
                let slope = if slope.is_finite() { slope } else { 1.0 };
                if slope > 64.0 {
                    out.stat("c08_coords_on_steep_segments", 1.0);
                }
                let bound = (1.0 + slope) / 16384.0 * 1.5 + 1e-9;
                out.stat("c08_coords", 1.0);
                if (got - want).abs() > bound {
                    out.viol("C08", format!("axis {} user {u}: fvar+avar normalize to {got:.6}, the source mapping gives {want:.6} (bound {bound:.6}); avar {:?}", a.tag, fa.segments));
                }
            }
            if !a.map.is_empty() {
                out.stat("c08_mapped_axes", 1.0);
            }
        }
        if let Ok(fvar) = font.fvar() {
            if let Ok(insts) = fvar.instances() {
                for (i, inst) in insts.iter().enumerate() {
                    if let Ok(inst) = inst {
                        for (c, fa) in inst.coordinates.iter().zip(&fvar_axes) {
                            let c = c.get().to_f64();
                            if c < fa.min - 1e-6 || c > fa.max + 1e-6 {
                                out.viol("C08", format!("named instance {i} coordinate {c} outside axis {} range [{}, {}]", fa.tag, fa.min, fa.max));
                            }
                        }
                    }
                }
            }
        }
    }

    // ---------------------------------------------------------------- C03 / C04
    if !order_ok {
        return out;
    }
    let masters = man["masters"].as_array().cloned().unwrap_or_default();
    let default_name = masters.first().map(|m| m["name"].as_str().unwrap().to_string()).unwrap_or_default();
    let master_loc = |m: &Value| -> Vec<f64> { axes.iter().map(|a| q14(a.normalize_design(f(&m["design_loc"][&a.tag])))).collect() };
    let hmtx = font.hmtx().ok();
    let vmtx = font.vmtx().ok();
    let hvar = font.hvar().ok();
    let vvar = font.vvar().ok();
    let hvar_ivs = hvar.as_ref().and_then(|h| h.item_variation_store().ok()).and_then(|s| Ivs::new(&s).ok());
    let vvar_ivs = vvar.as_ref().and_then(|h| h.item_variation_store().ok()).and_then(|s| Ivs::new(&s).ok());
    let keep_direction = opts.iter().any(|o| o == "--keep-direction");
    let _ = keep_direction;
    for g in &glyphs {
        if !g["export"].as_bool().unwrap_or(true) {
            continue;
        }
        let name = g["name"].as_str().unwrap();
        let Some(&gid) = gid_of.get(name) else { continue };
        let Ok(gp) = vf::glyph_points(&font, gid) else {
            out.viol("C05", format!("glyph {gid} unreadable"));
            continue;
        };
        let layers = &g["layers"];
        let Some(dl) = layers.get(&default_name) else { continue };
        let adv = hmtx.as_ref().and_then(|h| h.advance(GlyphId::new(gid))).unwrap_or(0) as f64;
        let lsb = hmtx.as_ref().and_then(|h| h.side_bearing(GlyphId::new(gid))).unwrap_or(0) as f64;
        let (vadv, tsb) = match &vmtx {
            Some(v) => (v.advance(GlyphId::new(gid)).unwrap_or(0) as f64, v.side_bearing(GlyphId::new(gid)).unwrap_or(0) as f64),
            None => (0.0, 0.0),
        };
        let (xmin, ymax) = if gp.empty { (0.0, 0.0) } else { (gp.x_min, gp.y_max) };
        let pp1 = (xmin - lsb, 0.0);
        let phantoms = [pp1, (pp1.0 + adv, 0.0), (0.0, ymax + tsb), (0.0, ymax + tsb - vadv)];
        // default advance exact
        out.stat("c04_advances", 1.0);
        // a Glyphs source zeroes the advance of nonspacing marks (glyphsLib behaviour, documented)
        let glyphs_mark = man["format"].as_str() == Some("glyphs") && man["lib"]["public.openTypeCategories"][name].as_str() == Some("mark");
        if glyphs_mark {
            if adv != 0.0 {
                out.viol("C04", format!("glyph '{name}': a nonspacing mark of a Glyphs source must have advance 0, hmtx says {adv}"));
            }
        } else if adv != ot_round(f(&dl["width"])) {
            out.viol("C04", format!("glyph '{name}': hmtx advance {adv} but the default master says {}", f(&dl["width"])));
        }
        if vmtx.is_some() && dl["height"].is_number() && vadv != ot_round(f(&dl["height"])) {
            out.viol("C04", format!("glyph '{name}': vmtx advance {vadv} but the default master says {}", f(&dl["height"])));
        }
        // outline correspondence at the default master
        let src_contours = |layer: &Value| -> Vec<Vec<(f64, f64, bool)>> {
            layer["contours"].as_array().map(|cs| cs.iter().map(|c| c.as_array().unwrap().iter().map(|p| (f(&p[0]), f(&p[1]), p[2].as_str() != Some("off"))).collect()).collect()).unwrap_or_default()
        };
        let src_comps = |layer: &Value| -> Vec<(String, Vec<f64>)> {
            layer["components"].as_array().map(|cs| cs.iter().map(|c| (c["base"].as_str().unwrap().to_string(), c["xform"].as_array().unwrap().iter().map(f).collect())).collect()).unwrap_or_default()
        };
        let dc = src_contours(dl);
        let dcomp = src_comps(dl);
        let has_cubic = dl["contours"].as_array().map(|cs| cs.iter().any(|c| c.as_array().unwrap().iter().any(|p| p[2].as_str() == Some("curve")))).unwrap_or(false);
        // mapping[i] = for font contour i: (source contour index, rotation, reversed)
        let mut mapping: Option<Vec<(usize, usize, bool)>> = None;
        let mut comp_map: Option<Vec<usize>> = None;
        let comparable_simple = !gp.composite && dcomp.is_empty() && !has_cubic;
        let comparable_comp = gp.composite && dc.is_empty() && !dcomp.is_empty();
        if comparable_simple {
            let mut starts = vec![];
            let mut s = 0;
            for &e in &gp.contour_ends {
                starts.push((s, e));
                s = e + 1;
            }
            if starts.len() != dc.len() {
                out.viol("C03", format!("glyph '{name}': {} contours in the font, {} in the default master", starts.len(), dc.len()));
            } else {
                let mut used = vec![false; dc.len()];
                let mut m = vec![];
                'contours: for &(s, e) in &starts {
                    let fp: Vec<(f64, f64, bool)> = (s..=e).map(|i| (gp.pts[i].0, gp.pts[i].1, gp.on_curve[i])).collect();
                    for (ci, sc) in dc.iter().enumerate() {
                        if used[ci] || sc.len() != fp.len() {
                            continue;
                        }
                        let n = sc.len();
                        for rev in [true, false] {
                            for rot in 0..n {
                                let ok = (0..n).all(|k| {
                                    let j = if rev { (rot + n - k) % n } else { (rot + k) % n };
                                    let p = sc[j];
                                    ot_round(p.0) == fp[k].0 && ot_round(p.1) == fp[k].1 && p.2 == fp[k].2
                                });
                                if ok {
                                    used[ci] = true;
                                    m.push((ci, rot, rev));
                                    continue 'contours;
                                }
                            }
                        }
                    }
                    out.viol("C03", format!("glyph '{name}': the font's default outline is not the rounded default master (contour starting at point {s}: {:?} matches no source contour)", &fp[..fp.len().min(6)]));
                    m.clear();
                    break;
                }
                if m.len() == starts.len() {
                    mapping = Some(m);
                }
            }
        } else if comparable_comp {
            // component correspondence: same base gid, same rounded default offset
            if gp.components.len() == dcomp.len() {
                let mut used = vec![false; dcomp.len()];
                let mut m = vec![];
                for (k, (cg, t)) in gp.components.iter().enumerate() {
                    let mut found = None;
                    for (ci, (base, xf)) in dcomp.iter().enumerate() {
                        if used[ci] {
                            continue;
                        }
                        if gid_of.get(base) == Some(cg) && ot_round(xf[4]) == gp.pts[k].0 && ot_round(xf[5]) == gp.pts[k].1 && (0..4).all(|i| (q14(xf[i]) - t[i]).abs() < 1e-4) {
                            found = Some(ci);
                            break;
                        }
                    }
                    match found {
                        Some(ci) => {
                            used[ci] = true;
                            m.push(ci);
                        }
                        None => {
                            // only a composite of simple, exported glyphs under options that leave composites alone must be stored as drawn
                            let plain = !opts.iter().any(|o| o.contains("flatten") || o.contains("decompose")) && dcomp.iter().all(|(b, xf)| {
                                by_name.get(b).map(|bg| bg["export"].as_bool().unwrap_or(true) && bg["layers"][&default_name]["components"].as_array().map(|c| c.is_empty()).unwrap_or(true)).unwrap_or(false)
                                    && xf[..4].iter().all(|v| v.abs() <= 2.0)
                            });
                            if plain {
                                out.viol("C03", format!("glyph '{name}': component {k} (glyph {cg}, offset {:?}, 2x2 {:?}) matches no component of the default master {:?}", gp.pts[k], t, dcomp));
                            } else {
                                out.skipped.push(format!("glyph '{name}': components restructured (nested / non-export / options)"));
                            }
                            m.clear();
                            break;
                        }
                    }
                }
                if m.len() == gp.components.len() {
                    comp_map = Some(m);
                }
            } else {
                out.skipped.push(format!("glyph '{name}': {} components in font vs {} in source (flattened/decomposed)", gp.components.len(), dcomp.len()));
            }
        } else {
            out.stat("c03_glyphs_not_pointwise", 1.0);
        }
        // cubic sources: the compiler converts to quadratics (tolerance upem/1000), so points do not correspond; compare the
        // curve the font draws at each master with the curve the master draws (sampled, two-way Hausdorff distance)
        let cubic_mode = has_cubic && !gp.composite && dcomp.is_empty();
        for m in &masters {
            let mname = m["name"].as_str().unwrap();
            let Some(layer) = layers.get(mname) else {
                // the glyph has no drawing at this master: the source says nothing about its advance here, but the two places the
                // font stores it - hmtx+HVAR and the gvar phantom points - must still tell the same story (property C04)
                if let (Some(h), Some(ivs), true) = (&hvar, &hvar_ivs, font.gvar().is_ok()) {
                    let coords = master_loc(m);
                    let (o, i) = match h.advance_width_mapping() {
                        Some(Ok(map)) => vf::map_get(&map, gid).unwrap_or((0xFFFF, 0xFFFF)),
                        _ => (0, gid as usize),
                    };
                    if let (Some((d, _)), Ok(inst)) = (ivs.delta(o, i, &coords), vf::instantiate(&font, gid, &gp, phantoms, &coords)) {
                        let ph_adv = inst.phantoms[1].0 - inst.phantoms[0].0;
                        out.stat("c04_skipped_master_evaluations", 1.0);
                        if inst.tuples > 0 && (adv + d - ph_adv).abs() > 1.0 + 1e-6 {
                            out.viol("C04", format!("glyph '{name}' at master {mname} {coords:?} (where it has no layer): hmtx+HVAR advance {} but the gvar phantom points give {ph_adv}", adv + d));
                        }
                    }
                }
                continue;
            };
            let is_default = mname == default_name;
            let coords = master_loc(m);
            let inst = match vf::instantiate(&font, gid, &gp, phantoms, &coords) {
                Ok(i) => i,
                Err(e) => {
                    out.viol("C05", format!("glyph '{name}': gvar unreadable: {e}"));
                    continue;
                }
            };
            let bound = if is_default { 0.0 } else { 0.5 + 0.5 * inst.scalar_sum + 1e-3 };
            // C04: advance through HVAR and through the phantom points
            if !is_default {
                let want = if glyphs_mark { 0.0 } else { ot_round(f(&layer["width"])) };
                let mut hv = None;
                if let (Some(h), Some(ivs)) = (&hvar, &hvar_ivs) {
                    let (o, i) = match h.advance_width_mapping() {
                        Some(Ok(map)) => vf::map_get(&map, gid).unwrap_or((0xFFFF, 0xFFFF)),
                        _ => (0, gid as usize),
                    };
                    if let Some((d, _)) = ivs.delta(o, i, &coords) {
                        hv = Some(adv + d);
                        if std::env::var("VERIF_DEBUG").is_ok() {
                            eprintln!("C04dbg glyph {name} master {mname} coords {coords:?}: hmtx {adv} + HVAR({o},{i}) {d} = {} ; source {want}", adv + d);
                        }
                        out.stat("c04_hvar_evaluations", 1.0);
                        if (adv + d - want).abs() > 1.0 + 1e-6 {
                            out.viol("C04", format!("glyph '{name}' at master {mname}: hmtx+HVAR advance {} but the master says {want}", adv + d));
                        }
                        if want != adv {
                            out.stat("c04_nontrivial", 1.0);
                        }
                    } else {
                        out.viol("C04", format!("glyph '{name}': HVAR delta set ({o},{i}) does not exist"));
                    }
                }
                let ph_adv = inst.phantoms[1].0 - inst.phantoms[0].0;
                if font.gvar().is_ok() && (ph_adv - want).abs() > 1.0 + 1e-6 && inst.tuples > 0 {
                    out.viol("C04", format!("glyph '{name}' at master {mname}: gvar phantom-point advance {ph_adv} but the master says {want}"));
                }
                if let Some(hv) = hv {
                    if inst.tuples > 0 && (hv - ph_adv).abs() > 1.0 + 1e-6 {
                        out.viol("C04", format!("glyph '{name}' at master {mname}: HVAR advance {hv} and gvar phantom advance {ph_adv} disagree"));
                    }
                }
                if let (Some(v), Some(ivs), true) = (&vvar, &vvar_ivs, layer["height"].is_number()) {
                    let wanth = ot_round(f(&layer["height"]));
                    let (o, i) = match v.advance_height_mapping() {
                        Some(Ok(map)) => vf::map_get(&map, gid).unwrap_or((0xFFFF, 0xFFFF)),
                        _ => (0, gid as usize),
                    };
                    if let Some((d, _)) = ivs.delta(o, i, &coords) {
                        out.stat("c04_vvar_evaluations", 1.0);
                        if (vadv + d - wanth).abs() > 1.0 + 1e-6 {
                            out.viol("C04", format!("glyph '{name}' at master {mname}: vmtx+VVAR advance {} but the master says {wanth}", vadv + d));
                        }
                    }
                    let ph = inst.phantoms[2].1 - inst.phantoms[3].1;
                    if inst.tuples > 0 && (ph - wanth).abs() > 1.0 + 1e-6 {
                        out.viol("C04", format!("glyph '{name}' at master {mname}: gvar vertical phantom advance {ph} but the master says {wanth}"));
                    }
                }
            }
            if cubic_mode {
                let typed = |layer: &Value| -> Vec<Vec<(f64, f64)>> {
                    layer["contours"].as_array().map(|cs| cs.iter().map(|c| {
                        let pts: Vec<(f64, f64, String)> = c.as_array().unwrap().iter().map(|p| (f(&p[0]), f(&p[1]), p[2].as_str().unwrap_or("line").to_string())).collect();
                        super::boundary::sample_source(&pts)
                    }).collect()).unwrap_or_default()
                };
                let want = typed(layer);
                let mut igp = vf::GlyphPoints { composite: false, pts: inst.pts.clone(), on_curve: gp.on_curve.clone(), contour_ends: gp.contour_ends.clone(), components: vec![], x_min: 0.0, y_max: 0.0, empty: gp.empty };
                igp.pts.truncate(gp.on_curve.len());
                // one polyline per contour
                let mut got: Vec<Vec<(f64, f64)>> = vec![];
                let mut s0 = 0;
                for &e in &gp.contour_ends {
                    if e >= igp.pts.len() || e < s0 {
                        break;
                    }
                    let one = vf::GlyphPoints { composite: false, pts: igp.pts[s0..=e].to_vec(), on_curve: igp.on_curve[s0..=e].to_vec(), contour_ends: vec![e - s0], components: vec![], x_min: 0.0, y_max: 0.0, empty: false };
                    got.push(super::boundary::sample_truetype(&one));
                    s0 = e + 1;
                }
                let upem = f(&man["upem"]).max(1.0);
                let tol = upem / 1000.0 + 1.5 + if is_default { 0.5 } else { bound };
                let d = super::boundary::polylines_dist(&want, &got);
                out.stat("c03_cubic_curves_compared", 1.0);
                if d > tol {
                    out.viol("C03", format!("glyph '{name}' at master {mname} {coords:?}: the curve the font draws is {d:.2} units away from the master's cubic outline (allowed {tol:.2})"));
                }
            }
            // C03: points
            if let Some(map) = &mapping {
                let sc = src_contours(layer);
                if sc.len() != dc.len() {
                    continue;
                }
                let mut k0 = 0;
                for (fi, &(ci, rot, rev)) in map.iter().enumerate() {
                    let n = sc[ci].len();
                    let _ = fi;
                    for k in 0..n {
                        let j = if rev { (rot + n - k) % n } else { (rot + k) % n };
                        let want = (ot_round(sc[ci][j].0), ot_round(sc[ci][j].1));
                        let got = inst.pts[k0 + k];
                        out.stat("c03_points", 1.0);
                        if !is_default && (want.0 != gp.pts[k0 + k].0 || want.1 != gp.pts[k0 + k].1) {
                            out.stat("c03_points_with_delta", 1.0);
                        }
                        if (got.0 - want.0).abs() > bound || (got.1 - want.1).abs() > bound {
                            out.viol("C03", format!("glyph '{name}' at master {mname} {coords:?}: point {} is ({:.3},{:.3}) but the master has ({},{}) (bound {bound:.3}, {} tuples active)", k0 + k, got.0, got.1, want.0, want.1, inst.tuples));
                        }
                    }
                    k0 += n;
                }
            }
            if let Some(map) = &comp_map {
                let sc = src_comps(layer);
                if sc.len() != dcomp.len() {
                    continue;
                }
                for (k, &ci) in map.iter().enumerate() {
                    let want = (ot_round(sc[ci].1[4]), ot_round(sc[ci].1[5]));
                    let got = inst.pts[k];
                    out.stat("c03_component_offsets", 1.0);
                    if (got.0 - want.0).abs() > bound || (got.1 - want.1).abs() > bound {
                        out.viol("C03", format!("glyph '{name}' at master {mname}: component {k} offset ({:.3},{:.3}) but the master has ({},{}) (bound {bound:.3})", got.0, got.1, want.0, want.1));
                    }
                }
            }
        }
    }
    // ---------------------------------------------------------------- C04 global metrics
    let os2 = font.os2().ok();
    let hhea = font.hhea().ok();
    let vhea = font.vhea().ok();
    let post = font.post().ok();
    let mvar = font.mvar().ok();
    let mvar_ivs = mvar.as_ref().and_then(|m| m.item_variation_store()).and_then(|s| s.ok()).and_then(|s| Ivs::new(&s).ok());
    let mut tags: HashMap<String, (usize, usize)> = HashMap::new();
    if let Some(m) = &mvar {
        for r in m.value_records() {
            tags.insert(r.value_tag().to_string(), (r.delta_set_outer_index() as usize, r.delta_set_inner_index() as usize));
        }
    }
    let table_val = |key: &str| -> Option<(f64, Option<&'static str>)> {
        let o = os2.as_ref();
        let h = hhea.as_ref();
        let v = vhea.as_ref();
        let p = post.as_ref();
        Some(match key {
            "openTypeOS2TypoAscender" => (o?.s_typo_ascender() as f64, Some("hasc")),
            "openTypeOS2TypoDescender" => (o?.s_typo_descender() as f64, Some("hdsc")),
            "openTypeOS2TypoLineGap" => (o?.s_typo_line_gap() as f64, Some("hlgp")),
            "openTypeOS2WinAscent" => (o?.us_win_ascent() as f64, Some("hcla")),
            "openTypeOS2WinDescent" => (o?.us_win_descent() as f64, Some("hcld")),
            "openTypeHheaAscender" => (h?.ascender().to_i16() as f64, None),
            "openTypeHheaDescender" => (h?.descender().to_i16() as f64, None),
            "openTypeHheaLineGap" => (h?.line_gap().to_i16() as f64, None),
            "openTypeHheaCaretSlopeRise" => (h?.caret_slope_rise() as f64, Some("hcrs")),
            "openTypeHheaCaretSlopeRun" => (h?.caret_slope_run() as f64, Some("hcrn")),
            "openTypeHheaCaretOffset" => (h?.caret_offset() as f64, Some("hcof")),
            "xHeight" => (o?.sx_height()? as f64, Some("xhgt")),
            "capHeight" => (o?.s_cap_height()? as f64, Some("cpht")),
            "postscriptUnderlinePosition" => (p?.underline_position().to_i16() as f64, Some("undo")),
            "postscriptUnderlineThickness" => (p?.underline_thickness().to_i16() as f64, Some("unds")),
            "openTypeOS2StrikeoutPosition" => (o?.y_strikeout_position() as f64, Some("stro")),
            "openTypeOS2StrikeoutSize" => (o?.y_strikeout_size() as f64, Some("strs")),
            "openTypeOS2SubscriptXSize" => (o?.y_subscript_x_size() as f64, Some("sbxs")),
            "openTypeOS2SubscriptYSize" => (o?.y_subscript_y_size() as f64, Some("sbys")),
            "openTypeOS2SubscriptXOffset" => (o?.y_subscript_x_offset() as f64, Some("sbxo")),
            "openTypeOS2SubscriptYOffset" => (o?.y_subscript_y_offset() as f64, Some("sbyo")),
            "openTypeOS2SuperscriptXSize" => (o?.y_superscript_x_size() as f64, Some("spxs")),
            "openTypeOS2SuperscriptYSize" => (o?.y_superscript_y_size() as f64, Some("spys")),
            "openTypeOS2SuperscriptXOffset" => (o?.y_superscript_x_offset() as f64, Some("spxo")),
            "openTypeOS2SuperscriptYOffset" => (o?.y_superscript_y_offset() as f64, Some("spyo")),
            "openTypeVheaVertTypoAscender" => (v?.ascender().to_i16() as f64, Some("vasc")),
            "openTypeVheaVertTypoDescender" => (v?.descender().to_i16() as f64, Some("vdsc")),
            "openTypeVheaVertTypoLineGap" => (v?.line_gap().to_i16() as f64, Some("vlgp")),
            "openTypeVheaCaretSlopeRise" => (v?.caret_slope_rise() as f64, Some("vcrs")),
            "openTypeVheaCaretSlopeRun" => (v?.caret_slope_run() as f64, Some("vcrn")),
            "openTypeVheaCaretOffset" => (v?.caret_offset() as f64, Some("vcof")),
            _ => return None,
        })
    };
    if let Some(dm) = masters.first() {
        if let Some(info) = dm["info"].as_object() {
            for (key, dv) in info {
                let Some((tv, tag)) = table_val(key) else { continue };
                let want = ot_round(f(dv));
                out.stat("c04_default_metrics", 1.0);
                if tv != want {
                    out.viol("C04", format!("{key}: the font's default value is {tv} but the default master says {}", f(dv)));
                    continue;
                }
                let Some(tag) = tag else { continue };
                if axes.is_empty() {
                    continue;
                }
                for m in masters.iter().skip(1) {
                    if !m["layer"].is_null() {
                        continue;
                    }
                    let Some(mv) = m["info"].get(key) else { continue };
                    let coords = master_loc(m);
                    let (delta, fractional) = match (tags.get(tag), &mvar_ivs) {
                        (Some(&(o, i)), Some(ivs)) => match ivs.delta(o, i, &coords) {
                            Some(d) => d,
                            None => {
                                out.viol("C04", format!("MVAR {tag}: delta set ({o},{i}) does not exist"));
                                continue;
                            }
                        },
                        _ => (0.0, false),
                    };
                    let tol = if fractional { 1.0 } else { 0.0 } + 1e-6;
                    let wantm = ot_round(f(mv));
                    out.stat("c04_mvar_evaluations", 1.0);
                    if wantm != want {
                        out.stat("c04_nontrivial", 1.0);
                    }
                    if (tv + delta - wantm).abs() > tol {
                        out.viol("C04", format!("{key} ({tag}) at master {}: font value {} (default {tv} + MVAR {delta}) but the master says {}", m["name"].as_str().unwrap(), tv + delta, f(mv)));
                    }
                }
            }
        }
    }
    // ---------------------------------------------------------------- C09 / C10
    super::layout::check(&font, man, &gid_of, &axes, &mut out);
    // ---------------------------------------------------------------- C19
    if man.get("boundary").is_some() {
        super::boundary::check(&font, man, &gid_of, &mut out);
    }
    // ---------------------------------------------------------------- C18
    if man.get("expect_names").is_some() {
        super::names::check(&font, man, &axes, &mut out);
    }
    out
}

pub fn to_json(o: &Out) -> Value {
    json!({"violations": o.v, "stats": o.stats, "skipped": o.skipped})
}
