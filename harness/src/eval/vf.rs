//! Own evaluators of OpenType variation data: tent scalars, ItemVariationStore, gvar + IUP, avar.
//! read-fonts is used to *decode* the tables; every evaluation rule is implemented here.
use write_fonts::read::{
    tables::{
        glyf::Glyph,
        variations::{DeltaSetIndexMap, ItemVariationStore},
    },
    types::GlyphId,
    FontRef, TableProvider,
};

pub fn q14(v: f64) -> f64 {
    (v * 16384.0).round() / 16384.0
}

/// OpenType region scalar for one axis tent.
pub fn tent(s: f64, p: f64, e: f64, v: f64) -> f64 {
    if s > p || p > e || (s < 0.0 && e > 0.0 && p != 0.0) || p == 0.0 {
        return 1.0;
    }
    if v == p {
        return 1.0;
    }
    if v <= s || v >= e {
        return 0.0;
    }
    if v < p {
        (v - s) / (p - s)
    } else {
        (e - v) / (e - p)
    }
}

pub fn region_scalar(tents: &[(f64, f64, f64)], coords: &[f64]) -> f64 {
    tents.iter().zip(coords.iter().chain(std::iter::repeat(&0.0))).map(|(&(s, p, e), &v)| tent(s, p, e, v)).product()
}

pub struct Ivs {
    pub regions: Vec<Vec<(f64, f64, f64)>>,
    /// per ItemVariationData: (region indexes, rows of deltas)
    pub data: Vec<(Vec<usize>, Vec<Vec<i32>>)>,
}

impl Ivs {
    pub fn new(ivs: &ItemVariationStore) -> Result<Ivs, String> {
        let rl = ivs.variation_region_list().map_err(|e| e.to_string())?;
        let mut regions = vec![];
        for r in rl.variation_regions().iter() {
            let r = r.map_err(|e| e.to_string())?;
            regions.push(r.region_axes().iter().map(|a| (a.start_coord().to_f32() as f64, a.peak_coord().to_f32() as f64, a.end_coord().to_f32() as f64)).collect());
        }
        let mut data = vec![];
        for d in ivs.item_variation_data().iter() {
            match d {
                Some(Ok(d)) => {
                    let idx: Vec<usize> = d.region_indexes().iter().map(|i| i.get() as usize).collect();
                    let rows = (0..d.item_count()).map(|i| d.delta_set(i).collect()).collect();
                    data.push((idx, rows));
                }
                _ => data.push((vec![], vec![])),
            }
        }
        Ok(Ivs { regions, data })
    }

    /// (delta, sum of scalars of contributing regions, any fractional scalar)
    pub fn delta(&self, outer: usize, inner: usize, coords: &[f64]) -> Option<(f64, bool)> {
        if outer == 0xFFFF && inner == 0xFFFF {
            return Some((0.0, false));
        }
        let (idx, rows) = self.data.get(outer)?;
        let row = rows.get(inner)?;
        let mut total = 0.0;
        let mut fractional = false;
        for (ri, d) in idx.iter().zip(row) {
            let s = region_scalar(self.regions.get(*ri)?, coords);
            if s != 0.0 && s != 1.0 && *d != 0 {
                fractional = true;
            }
            total += s * *d as f64;
        }
        Some((total, fractional))
    }
}

pub fn map_get(map: &DeltaSetIndexMap, i: u32) -> Option<(usize, usize)> {
    let n = match map {
        DeltaSetIndexMap::Format0(m) => m.map_count() as u32,
        DeltaSetIndexMap::Format1(m) => m.map_count(),
    };
    if n == 0 {
        return None;
    }
    // per spec: indices beyond the map use the last entry
    let di = map.get(i.min(n - 1)).ok()?;
    Some((di.outer as usize, di.inner as usize))
}

/// What gvar operates on for one glyph.
pub struct GlyphPoints {
    pub composite: bool,
    /// simple: outline points; composite: one (dx,dy) per component
    pub pts: Vec<(f64, f64)>,
    pub on_curve: Vec<bool>,
    pub contour_ends: Vec<usize>,
    /// component glyph ids and 2x2 (composites)
    pub components: Vec<(u32, [f64; 4])>,
    pub x_min: f64,
    pub y_max: f64,
    pub empty: bool,
}

pub fn glyph_points(font: &FontRef, gid: u32) -> Result<GlyphPoints, String> {
    let head = font.head().map_err(|e| e.to_string())?;
    let loca = font.loca(Some(head.index_to_loc_format() == 1)).map_err(|e| e.to_string())?;
    let glyf = font.glyf().map_err(|e| e.to_string())?;
    let g = loca.get_glyf(GlyphId::new(gid), &glyf).map_err(|e| e.to_string())?;
    let mut out = GlyphPoints { composite: false, pts: vec![], on_curve: vec![], contour_ends: vec![], components: vec![], x_min: 0.0, y_max: 0.0, empty: false };
    match g {
        None => out.empty = true,
        Some(Glyph::Simple(s)) => {
            for p in s.points() {
                out.pts.push((p.x as f64, p.y as f64));
                out.on_curve.push(p.on_curve);
            }
            out.contour_ends = s.end_pts_of_contours().iter().map(|e| e.get() as usize).collect();
            out.x_min = s.x_min() as f64;
            out.y_max = s.y_max() as f64;
        }
        Some(Glyph::Composite(c)) => {
            out.composite = true;
            out.x_min = c.x_min() as f64;
            out.y_max = c.y_max() as f64;
            for comp in c.components() {
                use write_fonts::read::tables::glyf::Anchor;
                let (dx, dy) = match comp.anchor {
                    Anchor::Offset { x, y } => (x as f64, y as f64),
                    Anchor::Point { .. } => (0.0, 0.0),
                };
                out.pts.push((dx, dy));
                let t = comp.transform;
                out.components.push((comp.glyph.to_u32(), [t.xx.to_f32() as f64, t.yx.to_f32() as f64, t.xy.to_f32() as f64, t.yy.to_f32() as f64]));
            }
        }
    }
    Ok(out)
}

/// Infer deltas of untouched points of one contour (the spec's IUP rule), one coordinate at a time.
fn iup_contour(coords: &[f64], deltas: &mut [f64], touched: &[bool]) {
    let n = coords.len();
    let first = match touched.iter().position(|t| *t) {
        Some(f) => f,
        None => return,
    };
    let idx: Vec<usize> = (0..n).filter(|i| touched[*i]).collect();
    if idx.len() == 1 {
        let d = deltas[first];
        for v in deltas.iter_mut() {
            *v = d;
        }
        return;
    }
    for w in 0..idx.len() {
        let a = idx[w];
        let b = idx[(w + 1) % idx.len()];
        // untouched points strictly between a and b (cyclically)
        let mut i = (a + 1) % n;
        while i != b {
            let (ca, cb, c) = (coords[a], coords[b], coords[i]);
            let (da, db) = (deltas[a], deltas[b]);
            let (lo, hi, dlo, dhi) = if ca <= cb { (ca, cb, da, db) } else { (cb, ca, db, da) };
            deltas[i] = if ca == cb {
                if da == db { da } else { 0.0 }
            } else if c <= lo {
                dlo
            } else if c >= hi {
                dhi
            } else {
                dlo + (dhi - dlo) * (c - lo) / (hi - lo)
            };
            i = (i + 1) % n;
        }
    }
}

pub struct Instance {
    /// varied points (outline points or component offsets)
    pub pts: Vec<(f64, f64)>,
    /// varied phantom points
    pub phantoms: [(f64, f64); 4],
    /// sum of scalars of the tuples applied
    pub scalar_sum: f64,
    pub tuples: usize,
}

/// Instantiate one glyph at normalized `coords` (my own tuple scalar + IUP).
pub fn instantiate(font: &FontRef, gid: u32, gp: &GlyphPoints, phantoms: [(f64, f64); 4], coords: &[f64]) -> Result<Instance, String> {
    let n = gp.pts.len();
    let mut all: Vec<(f64, f64)> = gp.pts.clone();
    all.extend_from_slice(&phantoms);
    let mut out = all.clone();
    let mut scalar_sum = 0.0;
    let mut tuples = 0;
    let gvar = match font.gvar() {
        Ok(g) => g,
        Err(_) => return Ok(Instance { pts: gp.pts.clone(), phantoms, scalar_sum, tuples }),
    };
    let Some(vd) = gvar.glyph_variation_data(GlyphId::new(gid)).map_err(|e| e.to_string())? else {
        return Ok(Instance { pts: gp.pts.clone(), phantoms, scalar_sum, tuples });
    };
    for t in vd.tuples() {
        let peak: Vec<f64> = t.peak().values().iter().map(|v| v.get().to_f32() as f64).collect();
        let inter = match (t.intermediate_start(), t.intermediate_end()) {
            (Some(s), Some(e)) => Some((s.values().iter().map(|v| v.get().to_f32() as f64).collect::<Vec<_>>(), e.values().iter().map(|v| v.get().to_f32() as f64).collect::<Vec<_>>())),
            _ => None,
        };
        let mut s = 1.0;
        for (i, p) in peak.iter().enumerate() {
            let v = coords.get(i).copied().unwrap_or(0.0);
            if *p == 0.0 {
                continue;
            }
            let (lo, hi) = match &inter {
                Some((st, en)) => (st[i], en[i]),
                None => (p.min(0.0), p.max(0.0)),
            };
            s *= tent(lo, *p, hi, v);
            if s == 0.0 {
                break;
            }
        }
        if s == 0.0 {
            continue;
        }
        scalar_sum += s;
        tuples += 1;
        let mut dx = vec![0.0; n + 4];
        let mut dy = vec![0.0; n + 4];
        let mut touched = vec![false; n + 4];
        for d in t.deltas() {
            let p = d.position as usize;
            if p < n + 4 {
                dx[p] = d.x_delta as f64;
                dy[p] = d.y_delta as f64;
                touched[p] = true;
            }
        }
        if !t.has_deltas_for_all_points() && !gp.composite {
            let mut start = 0;
            for &end in &gp.contour_ends {
                if end >= n || end < start {
                    break;
                }
                let xs: Vec<f64> = all[start..=end].iter().map(|p| p.0).collect();
                let ys: Vec<f64> = all[start..=end].iter().map(|p| p.1).collect();
                iup_contour(&xs, &mut dx[start..=end], &touched[start..=end]);
                iup_contour(&ys, &mut dy[start..=end], &touched[start..=end]);
                start = end + 1;
            }
        }
        for i in 0..n + 4 {
            out[i].0 += s * dx[i];
            out[i].1 += s * dy[i];
        }
    }
    let ph = [out[n], out[n + 1], out[n + 2], out[n + 3]];
    out.truncate(n);
    Ok(Instance { pts: out, phantoms: ph, scalar_sum, tuples })
}

/// fvar default normalization followed by avar, as the spec defines them.
pub struct AxisNorm {
    pub tag: String,
    pub min: f64,
    pub default: f64,
    pub max: f64,
    pub segments: Vec<(f64, f64)>,
}

pub fn axes(font: &FontRef) -> Result<Vec<AxisNorm>, String> {
    let fvar = font.fvar().map_err(|e| e.to_string())?;
    let mut out: Vec<AxisNorm> = fvar
        .axes()
        .map_err(|e| e.to_string())?
        .iter()
        .map(|a| AxisNorm { tag: a.axis_tag().to_string(), min: a.min_value().to_f64(), default: a.default_value().to_f64(), max: a.max_value().to_f64(), segments: vec![] })
        .collect();
    if let Ok(avar) = font.avar() {
        for (i, m) in avar.axis_segment_maps().iter().enumerate() {
            if let (Ok(m), Some(ax)) = (m, out.get_mut(i)) {
                ax.segments = m.axis_value_maps().iter().map(|v| (v.from_coordinate().to_f32() as f64, v.to_coordinate().to_f32() as f64)).collect();
            }
        }
    }
    Ok(out)
}

impl AxisNorm {
    pub fn default_normalize(&self, u: f64) -> f64 {
        let u = u.clamp(self.min, self.max);
        let n = if u < self.default {
            -(self.default - u) / (self.default - self.min)
        } else if u > self.default {
            (u - self.default) / (self.max - self.default)
        } else {
            0.0
        };
        q14(n)
    }

    pub fn avar(&self, n: f64) -> f64 {
        if self.segments.is_empty() {
            return n;
        }
        let s = &self.segments;
        if n <= s[0].0 {
            return s[0].1;
        }
        for w in s.windows(2) {
            let ((f0, t0), (f1, t1)) = (w[0], w[1]);
            if n <= f1 {
                return if f1 == f0 { t0 } else { t0 + (t1 - t0) * (n - f0) / (f1 - f0) };
            }
        }
        s[s.len() - 1].1
    }
}
