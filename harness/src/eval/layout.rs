//! C09 (kerning) and C10 (mark attachment): the emitted GPOS/GDEF, interpreted by `otl.rs` at every
//! master location, against models computed from the manifest alone.
use std::collections::{BTreeMap, BTreeSet, HashMap};

use serde_json::Value;
use write_fonts::read::FontRef;

use super::otl;
use super::src::{f, ot_round, Axis, Out};
use super::vf::q14;

/// The UFO kerning value lookup algorithm on one master's own kerning and groups.
fn ufo_kern_lookup(kerning: &HashMap<String, HashMap<String, f64>>, g1: &HashMap<String, String>, g2: &HashMap<String, String>, l: &str, r: &str) -> f64 {
    let get = |a: &str, b: &str| kerning.get(a).and_then(|row| row.get(b)).copied();
    if let Some(v) = get(l, r) {
        return v;
    }
    let gl = g1.get(l);
    let gr = g2.get(r);
    if let Some(gr) = gr {
        if let Some(v) = get(l, gr) {
            return v;
        }
    }
    if let Some(gl) = gl {
        if let Some(v) = get(gl, r) {
            return v;
        }
        if let Some(gr) = gr {
            if let Some(v) = get(gl, gr) {
                return v;
            }
        }
    }
    0.0
}

fn own_anchors(layer: &Value) -> Vec<(String, f64, f64)> {
    layer["anchors"].as_array().map(|a| a.iter().map(|x| (x["name"].as_str().unwrap_or("").to_string(), f(&x["x"]), f(&x["y"]))).collect()).unwrap_or_default()
}

thread_local! {
    /// the manifest's glyphs (each layer tagged with its master) while anchor propagation is on
    static PROPAGATION: std::cell::RefCell<Option<Value>> = const { std::cell::RefCell::new(None) };
}

/// Anchors of a layer as the compiler must see them.  With anchor propagation on, a composite without anchors of its own
/// made of exactly one component with an identity 2x2 inherits that component's anchors shifted by the offset (the one
/// case the propagation rules leave no choice in); everything else keeps its own anchors.
fn anchors_of(layer: &Value) -> Vec<(String, f64, f64)> {
    let own = own_anchors(layer);
    if !own.is_empty() {
        return own;
    }
    let comps = layer["components"].as_array().cloned().unwrap_or_default();
    let glyphs = PROPAGATION.with(|p| p.borrow().clone());
    let (Some(glyphs), 1) = (glyphs, comps.len()) else { return own };
    let x: Vec<f64> = comps[0]["xform"].as_array().map(|v| v.iter().map(f).collect()).unwrap_or_default();
    if x.len() != 6 || x[0] != 1.0 || x[1] != 0.0 || x[2] != 0.0 || x[3] != 1.0 {
        return own;
    }
    let Some(master) = layer["_master"].as_str() else { return own };
    let Some(base) = glyphs.as_array().and_then(|gs| gs.iter().find(|g| g["name"] == comps[0]["base"])) else { return own };
    let Some(bl) = base["layers"].get(master) else { return own };
    anchors_of(bl).into_iter().map(|(n, ax, ay)| (n, ax + x[4], ay + x[5])).collect()
}

#[derive(Debug, Clone, PartialEq)]
enum Kind {
    Base(String),
    Mark(String),
    Lig(String, usize),
    Other,
}

/// Anchor naming convention as documented (ufo2ft markFeatureWriter): `_x` mark, `x_N` ligature component N, `x` base.
fn kind_of(name: &str) -> Kind {
    if name == "entry" || name == "exit" || name.starts_with("caret_") || name.starts_with("vcaret_") {
        return Kind::Other;
    }
    if let Some(s) = name.strip_prefix('_') {
        if s.is_empty() || s.parse::<usize>().is_ok() {
            return Kind::Other;
        }
        if let Some((_, n)) = s.rsplit_once('_') {
            if n.parse::<usize>().is_ok() {
                return Kind::Other;
            }
        }
        return Kind::Mark(s.to_string());
    }
    if let Some((g, n)) = name.rsplit_once('_') {
        if let Ok(i) = n.parse::<usize>() {
            return if i == 0 { Kind::Other } else { Kind::Lig(g.to_string(), i) };
        }
    }
    Kind::Base(name.to_string())
}

pub fn check(font: &FontRef, man: &Value, gid_of: &HashMap<String, u32>, axes: &[Axis], out: &mut Out) {
    let masters = man["masters"].as_array().cloned().unwrap_or_default();
    let glyphs = man["glyphs"].as_array().cloned().unwrap_or_default();
    let has_kerning = masters.iter().any(|m| m["kerning"].as_object().map(|k| !k.is_empty()).unwrap_or(false));
    let has_anchors = glyphs.iter().any(|g| g["layers"].as_object().map(|l| l.values().any(|x| x["anchors"].as_array().map(|a| !a.is_empty()).unwrap_or(false))).unwrap_or(false));
    if !has_kerning && !has_anchors {
        return;
    }
    let master_loc = |m: &Value| -> Vec<f64> { axes.iter().map(|a| q14(a.normalize_design(f(&m["design_loc"][&a.tag])))).collect() };
    // every layer learns its master's name (anchor propagation looks the component up in the same master)
    let mut glyphs = glyphs;
    for g in glyphs.iter_mut() {
        if let Some(layers) = g["layers"].as_object_mut() {
            for (mname, layer) in layers.iter_mut() {
                layer["_master"] = Value::String(mname.clone());
            }
        }
    }
    let propagate = man["propagate_anchors"].as_bool().unwrap_or(false);
    PROPAGATION.with(|p| *p.borrow_mut() = if propagate { Some(Value::Array(glyphs.clone())) } else { None });
    let exported: Vec<String> = glyphs.iter().filter(|g| g["export"].as_bool().unwrap_or(true)).map(|g| g["name"].as_str().unwrap().to_string()).filter(|n| n != ".notdef" && gid_of.contains_key(n)).collect();

    // ------------------------------------------------------------------------------------------ C09
    if has_kerning {
        for (mi, m) in masters.iter().enumerate() {
            if !m["layer"].is_null() {
                continue;
            }
            let kobj = m["kerning"].as_object().cloned().unwrap_or_default();
            if kobj.is_empty() && mi != 0 {
                continue; // a non-default master without kerning does not define kerning: interpolated
            }
            let mname = m["name"].as_str().unwrap_or("");
            let coords = master_loc(m);
            let shaper = match otl::shaper_for(font, &coords) {
                Ok(s) => s,
                Err(e) => {
                    out.viol("C09", format!("layout tables cannot be decoded: {e}"));
                    return;
                }
            };
            let mut kerning: HashMap<String, HashMap<String, f64>> = HashMap::new();
            for (a, row) in &kobj {
                for (b, v) in row.as_object().unwrap() {
                    kerning.entry(a.clone()).or_default().insert(b.clone(), f(v));
                }
            }
            let mut g1 = HashMap::new();
            let mut g2 = HashMap::new();
            if let Some(gr) = m["groups"].as_object() {
                for (name, members) in gr {
                    let map = if name.starts_with("public.kern1.") {
                        &mut g1
                    } else if name.starts_with("public.kern2.") {
                        &mut g2
                    } else {
                        continue;
                    };
                    for mem in members.as_array().unwrap() {
                        map.insert(mem.as_str().unwrap().to_string(), name.clone());
                    }
                }
            }
            let Some(gpos) = &shaper.gpos else {
                let any = exported.iter().any(|l| exported.iter().any(|r| ot_round(ufo_kern_lookup(&kerning, &g1, &g2, l, r)) != 0.0));
                if any {
                    out.viol("C09", format!("master {mname} has non-zero kerning but the font has no GPOS table"));
                }
                continue;
            };
            let mut systems: Vec<(String, Vec<usize>)> = vec![];
            for script in ["DFLT", "latn"] {
                if gpos.scripts.contains_key(script) {
                    systems.push((script.to_string(), shaper.active_lookups(gpos, script, "dflt", Some(&["kern"]))));
                }
            }
            if systems.is_empty() {
                out.viol("C09", "GPOS has neither a DFLT nor a latn script".to_string());
                continue;
            }
            for l in &exported {
                for r in &exported {
                    let want = ot_round(ufo_kern_lookup(&kerning, &g1, &g2, l, r));
                    let (lg, rg) = (gid_of[l] as u16, gid_of[r] as u16);
                    for (script, lookups) in &systems {
                        shaper.fractional_seen.set(false);
                        let (p1, p2) = shaper.pair_adjust(lg, rg, lookups);
                        let tol = if shaper.fractional_seen.get() { 1.0 } else { 0.0 } + 1e-6;
                        out.stat("c09_pairs_evaluated", 1.0);
                        if want != 0.0 {
                            out.stat("c09_nontrivial", 1.0);
                        }
                        if (p1.xa - want).abs() > tol {
                            out.viol("C09", format!("pair ({l}, {r}) at master {mname} {coords:?} under {script}: kern gives {} but the UFO lookup on that master gives {want}", p1.xa));
                        } else if p1.xp != 0.0 || p1.yp != 0.0 || p1.ya != 0.0 || p2 != otl::Pos::default() {
                            out.viol("C09", format!("pair ({l}, {r}) at master {mname} under {script}: kern applies something other than a horizontal advance adjustment on the first glyph: {p1:?} {p2:?}"));
                        }
                    }
                }
            }
            out.stat("c09_masters", 1.0);
            let un = shaper.unsupported.borrow();
            if !un.is_empty() {
                out.skipped.push(format!("kern lookups use {:?}", &un[..1]));
            }
        }
    }

    // ------------------------------------------------------------------------------------------ C10
    if !has_anchors {
        return;
    }
    let cats: HashMap<String, String> = man["lib"]["public.openTypeCategories"].as_object().map(|o| o.iter().map(|(k, v)| (k.clone(), v.as_str().unwrap_or("").to_string())).collect()).unwrap_or_default();
    if cats.is_empty() {
        out.skipped.push("C10: source has no public.openTypeCategories; classification is not determined by the source alone".to_string());
        return;
    }
    let propagate = man["lib"].get("com.github.googlei18n.ufo2ft.filters").is_some();
    let _ = propagate;
    let default_name = masters.first().map(|m| m["name"].as_str().unwrap().to_string()).unwrap_or_default();
    // per glyph: the anchors of its default layer decide its roles
    let by_name: HashMap<String, &Value> = glyphs.iter().map(|g| (g["name"].as_str().unwrap().to_string(), g)).collect();
    let included: Vec<&String> = exported.iter().filter(|n| matches!(cats.get(*n).map(|s| s.as_str()), Some("base" | "mark" | "ligature"))).collect();
    let default_anchors = |n: &str| -> Vec<(String, f64, f64)> { by_name.get(n).and_then(|g| g["layers"].get(&default_name)).map(anchors_of).unwrap_or_default() };
    let mut base_groups = BTreeSet::new();
    let mut mark_groups = BTreeSet::new();
    for n in &included {
        for (an, _, _) in default_anchors(n) {
            match kind_of(&an) {
                Kind::Base(g) | Kind::Lig(g, _) => {
                    base_groups.insert(g);
                }
                Kind::Mark(g) => {
                    mark_groups.insert(g);
                }
                Kind::Other => {}
            }
        }
    }
    let used: BTreeSet<String> = base_groups.intersection(&mark_groups).cloned().collect();
    let is_mark_glyph = |n: &str| cats.get(n).map(|s| s == "mark").unwrap_or(false) && default_anchors(n).iter().any(|(an, _, _)| matches!(kind_of(an), Kind::Mark(g) if used.contains(&g)));
    // expected attachments: (attaching glyph, kind, component, mark glyph, group)
    let mut expected: Vec<(String, &'static str, Option<usize>, String, String)> = vec![];
    for grp in &used {
        let marks: Vec<&String> = included.iter().copied().filter(|n| is_mark_glyph(n) && default_anchors(n).iter().any(|(an, _, _)| kind_of(an) == Kind::Mark(grp.clone()))).collect();
        for n in &included {
            let cat = cats.get(*n).map(|s| s.as_str()).unwrap_or("");
            for (an, _, _) in default_anchors(n) {
                match kind_of(&an) {
                    Kind::Base(g) if &g == grp => {
                        let kind = if cat == "base" {
                            "base"
                        } else if is_mark_glyph(n) {
                            "mark"
                        } else {
                            continue;
                        };
                        for m in &marks {
                            expected.push(((*n).clone(), kind, None, (*m).clone(), grp.clone()));
                        }
                    }
                    Kind::Lig(g, i) if &g == grp && cat == "ligature" => {
                        for m in &marks {
                            expected.push(((*n).clone(), "lig", Some(i - 1), (*m).clone(), grp.clone()));
                        }
                    }
                    _ => {}
                }
            }
        }
    }
    // GDEF classes of source marks
    let shaper0 = match otl::shaper_for(font, &vec![0.0; axes.len()]) {
        Ok(s) => s,
        Err(e) => {
            out.viol("C10", format!("layout tables cannot be decoded: {e}"));
            return;
        }
    };
    for n in &exported {
        if cats.get(n).map(|s| s == "mark").unwrap_or(false) {
            out.stat("c10_gdef_marks_checked", 1.0);
            let c = shaper0.gdef.classes.get(&(gid_of[n] as u16)).copied().unwrap_or(0);
            if c != 3 {
                out.viol("C10", format!("glyph '{n}' is a mark in the source (public.openTypeCategories) but its GDEF glyph class is {c}"));
            }
        }
    }
    if expected.is_empty() {
        return;
    }
    let Some(gpos0) = &shaper0.gpos else {
        out.viol("C10", format!("{} (attaching glyph, mark) pairs share an anchor name but the font has no GPOS table", expected.len()));
        return;
    };
    let _ = gpos0;
    for m in &masters {
        let mname = m["name"].as_str().unwrap_or("");
        let coords = master_loc(m);
        let Ok(shaper) = otl::shaper_for(font, &coords) else { continue };
        let gpos = shaper.gpos.as_ref().unwrap();
        let mut systems: Vec<(String, Vec<usize>)> = vec![];
        for script in ["DFLT", "latn"] {
            if gpos.scripts.contains_key(script) {
                systems.push((script.to_string(), shaper.active_lookups(gpos, script, "dflt", Some(&["mark", "mkmk"]))));
            }
        }
        if systems.is_empty() {
            out.viol("C10", "GPOS has neither a DFLT nor a latn script".to_string());
            return;
        }
        // group expected by (attaching, comp, mark)
        let mut want: BTreeMap<(String, Option<usize>, String), Vec<(&'static str, (f64, f64), (f64, f64), String)>> = BTreeMap::new();
        for (a, kind, comp, mk, grp) in &expected {
            let (Some(al), Some(ml)) = (by_name[a]["layers"].get(mname), by_name[mk]["layers"].get(mname)) else { continue };
            let an = match comp {
                Some(i) => format!("{grp}_{}", i + 1),
                None => grp.clone(),
            };
            let (Some(ba), Some(ma)) = (anchors_of(al).into_iter().find(|x| x.0 == an), anchors_of(ml).into_iter().find(|x| x.0 == format!("_{grp}"))) else { continue };
            if own_anchors(al).is_empty() {
                out.stat("c10_propagated_attachments", 1.0);
            }
            want.entry((a.clone(), *comp, mk.clone())).or_default().push((kind, (ot_round(ba.1), ot_round(ba.2)), (ot_round(ma.1), ot_round(ma.2)), grp.clone()));
        }
        for ((a, comp, mk), wants) in &want {
            for (script, lookups) in &systems {
                shaper.fractional_seen.set(false);
                let got = shaper.mark_attachments(lookups, gid_of[a] as u16, gid_of[mk] as u16, *comp);
                let tol = if shaper.fractional_seen.get() { 1.0 } else { 0.0 } + 1e-6;
                let close = |p: (f64, f64), q: (f64, f64)| (p.0 - q.0).abs() <= tol && (p.1 - q.1).abs() <= tol;
                for (kind, wb, wm, grp) in wants {
                    out.stat("c10_attachments_evaluated", 1.0);
                    out.stat(&format!("c10_kind_{kind}"), 1.0);
                    if mname != default_name {
                        out.stat("c10_nontrivial", 1.0);
                    }
                    let hit = got.iter().any(|(_, k, gb, gm)| k == kind && close(*gb, *wb) && close(*gm, *wm));
                    if !hit {
                        let what = match comp {
                            Some(i) => format!("ligature '{a}' component {}", i + 1),
                            None => format!("'{a}'"),
                        };
                        if got.is_empty() {
                            out.viol("C10", format!("{what} and mark '{mk}' share anchor '{grp}' but no {script} mark/mkmk lookup attaches them (master {mname})"));
                        } else {
                            out.viol("C10", format!("{what} + mark '{mk}' anchor '{grp}' at master {mname} {coords:?} under {script}: font attaches {:?} but the rounded source anchors are base {wb:?} mark {wm:?}", got.iter().map(|g| (g.1, g.2, g.3)).collect::<Vec<_>>()));
                        }
                    }
                }
                // nothing attached that the source does not ask for
                for (li, k, gb, gm) in &got {
                    if !wants.iter().any(|(kind, wb, wm, _)| k == kind && close(*gb, *wb) && close(*gm, *wm)) {
                        out.viol("C10", format!("lookup {li} attaches mark '{mk}' to '{a}' ({k}) with anchors {gb:?}/{gm:?} at master {mname}, which no shared source anchor gives (source: {:?})", wants.iter().map(|w| (w.1, w.2)).collect::<Vec<_>>()));
                    }
                }
            }
        }
        out.stat("c10_masters", 1.0);
    }
}
