//! Generic full traversal of a table through read-fonts' `SomeTable` interface.
use write_fonts::read::traversal::{FieldType, SomeArray, SomeTable};

pub struct Visit<'v> {
    /// called for every scalar-ish field: (table type name, field name, value)
    pub on_field: &'v mut dyn FnMut(&str, &str, &FieldType<'_>),
    pub errors: Vec<String>,
    pub nodes: usize,
    pub max_nodes: usize,
}

impl<'v> Visit<'v> {
    pub fn table<'a>(&mut self, t: &(dyn SomeTable<'a> + 'a), path: &str, depth: usize) {
        if depth > 64 {
            self.errors.push(format!("{path}: nesting deeper than 64"));
            return;
        }
        self.nodes += 1;
        if self.nodes > self.max_nodes {
            return;
        }
        let tname = t.type_name().to_string();
        let mut idx = 0;
        while let Some(f) = t.get_field(idx) {
            idx += 1;
            self.value(&tname, f.name, &f.value, path, depth);
        }
    }

    fn value<'a>(&mut self, tname: &str, fname: &str, v: &FieldType<'a>, path: &str, depth: usize) {
        match v {
            FieldType::ResolvedOffset(r) => match &r.target {
                Ok(t) => {
                    let p = format!("{path}/{fname}");
                    self.table(t.as_ref(), &p, depth + 1)
                }
                Err(e) => {
                    // a null offset is legal where the spec allows it; read-fonts reports NullOffset only for non-nullable ones
                    self.errors.push(format!("{path}/{fname}: offset {} does not resolve: {e}", r.offset.to_u32()))
                }
            },
            FieldType::StringOffset(s) => {
                if let Err(e) = &s.target {
                    self.errors.push(format!("{path}/{fname}: string offset does not resolve: {e}"));
                }
            }
            FieldType::ArrayOffset(a) => match &a.target {
                Ok(arr) => self.array(tname, fname, arr.as_ref(), path, depth),
                Err(e) => self.errors.push(format!("{path}/{fname}: array offset does not resolve: {e}")),
            },
            FieldType::Record(r) => {
                let p = format!("{path}/{fname}");
                self.table(r, &p, depth + 1)
            }
            FieldType::Array(arr) => self.array(tname, fname, arr.as_ref(), path, depth),
            FieldType::Unknown => {}
            other => (self.on_field)(tname, fname, other),
        }
    }

    fn array<'a>(&mut self, tname: &str, fname: &str, arr: &(dyn SomeArray<'a> + 'a), path: &str, depth: usize) {
        let n = arr.len();
        for i in 0..n {
            if self.nodes > self.max_nodes {
                return;
            }
            match arr.get(i) {
                Some(v) => {
                    let p = format!("{path}/{fname}[{i}]");
                    match &v {
                        FieldType::Record(_) | FieldType::ResolvedOffset(_) | FieldType::Array(_) | FieldType::ArrayOffset(_) | FieldType::StringOffset(_) => {
                            self.value(tname, fname, &v, &p[..p.rfind('/').unwrap_or(0)], depth)
                        }
                        _ => (self.on_field)(tname, fname, &v),
                    }
                }
                None => {
                    self.errors.push(format!("{path}/{fname}[{i}] of {n} unreadable"));
                    return;
                }
            }
        }
    }
}
