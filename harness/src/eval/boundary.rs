//! C19 helpers: fields the other oracles do not read back (unitsPerEm, OS/2 weight / width class) and a
//! shape oracle for glyphs whose components sit at the limits of the 2.14 / 16-bit fields: whatever the
//! compiler does (composite, decomposition), the resolved default outline must be the source's.
use std::collections::HashMap;

use serde_json::Value;
use write_fonts::read::{FontRef, TableProvider};

use super::src::{f, ot_round, Out};
use super::vf;

fn resolve(font: &FontRef, gid: u32, depth: usize) -> Result<Vec<(f64, f64)>, String> {
    if depth > 8 {
        return Err("component nesting too deep".into());
    }
    let gp = vf::glyph_points(font, gid)?;
    if !gp.composite {
        return Ok(gp.pts);
    }
    let mut out = vec![];
    for ((cg, t), (dx, dy)) in gp.components.iter().zip(&gp.pts) {
        for (x, y) in resolve(font, *cg, depth + 1)? {
            out.push((t[0] * x + t[2] * y + dx, t[1] * x + t[3] * y + dy));
        }
    }
    Ok(out)
}

fn source_points(by_name: &HashMap<String, &Value>, layer_name: &str, name: &str, depth: usize) -> Option<Vec<(f64, f64)>> {
    if depth > 8 {
        return None;
    }
    let layer = by_name.get(name)?["layers"].get(layer_name)?;
    let mut out: Vec<(f64, f64)> = vec![];
    for c in layer["contours"].as_array()? {
        for p in c.as_array()? {
            out.push((f(&p[0]), f(&p[1])));
        }
    }
    for comp in layer["components"].as_array()? {
        let x: Vec<f64> = comp["xform"].as_array()?.iter().map(f).collect();
        for (px, py) in source_points(by_name, layer_name, comp["base"].as_str()?, depth + 1)? {
            out.push((x[0] * px + x[2] * py + x[4], x[1] * px + x[3] * py + x[5]));
        }
    }
    Some(out)
}

/// Own decoder of a simple glyph's coordinates from raw glyf bytes, accumulating the stored deltas in 32 bits -
/// what a rasteriser does.  read-fonts accumulates in wrapping 16-bit arithmetic, which hides a wrapped delta.
pub fn raw_simple_points(font: &FontRef, gid: u32) -> Option<Vec<(i32, i32)>> {
    use write_fonts::read::types::Tag;
    let glyf = font.table_data(Tag::new(b"glyf"))?;
    let loca = font.table_data(Tag::new(b"loca"))?;
    let long = font.head().ok()?.index_to_loc_format() == 1;
    let (g, l) = (glyf.as_bytes(), loca.as_bytes());
    let off = |i: usize| -> Option<usize> {
        if long {
            l.get(4 * i..4 * i + 4).map(|b| u32::from_be_bytes([b[0], b[1], b[2], b[3]]) as usize)
        } else {
            l.get(2 * i..2 * i + 2).map(|b| u16::from_be_bytes([b[0], b[1]]) as usize * 2)
        }
    };
    let (s, e) = (off(gid as usize)?, off(gid as usize + 1)?);
    if e <= s {
        return Some(vec![]);
    }
    let d = g.get(s..e)?;
    let i16at = |o: usize| d.get(o..o + 2).map(|b| i16::from_be_bytes([b[0], b[1]]));
    let nc = i16at(0)?;
    if nc < 0 {
        return None;
    }
    let nc = nc as usize;
    let mut o = 10;
    let mut npts = 0usize;
    for _ in 0..nc {
        npts = i16at(o)? as u16 as usize + 1;
        o += 2;
    }
    let ilen = i16at(o)? as u16 as usize;
    o += 2 + ilen;
    let mut flags = Vec::with_capacity(npts);
    while flags.len() < npts {
        let f = *d.get(o)?;
        o += 1;
        flags.push(f);
        if f & 8 != 0 {
            let r = *d.get(o)?;
            o += 1;
            for _ in 0..r {
                flags.push(f);
            }
        }
    }
    flags.truncate(npts);
    let mut coords = |short: u8, same: u8| -> Option<Vec<i32>> {
        let mut v = Vec::with_capacity(npts);
        let mut cur = 0i32;
        for f in &flags {
            if f & short != 0 {
                let b = *d.get(o)? as i32;
                o += 1;
                cur += if f & same != 0 { b } else { -b };
            } else if f & same == 0 {
                cur += i16at(o)? as i32;
                o += 2;
            }
            v.push(cur);
        }
        Some(v)
    };
    let xs = coords(2, 16)?;
    let ys = coords(4, 32)?;
    Some(xs.into_iter().zip(ys).collect())
}

pub fn check(font: &FontRef, man: &Value, gid_of: &HashMap<String, u32>, out: &mut Out) {
    let b = &man["boundary"];
    let kind = b["kind"].as_str().unwrap_or("none");
    let v = f(&b["value"]);
    out.stat("c19_probes", 1.0);
    match kind {
        "upem" => {
            let got = font.head().map(|h| h.units_per_em() as f64).unwrap_or(-1.0);
            if got != v {
                out.viol("C19", format!("unitsPerEm {v} in the source came out as {got}"));
            }
        }
        "weightclass" => {
            let got = font.os2().map(|o| o.us_weight_class() as f64).unwrap_or(-1.0);
            if got != v {
                out.viol("C19", format!("OS/2 usWeightClass {v} in the source came out as {got}"));
            }
        }
        "widthclass" => {
            let got = font.os2().map(|o| o.us_width_class() as f64).unwrap_or(-1.0);
            if got != v {
                out.viol("C19", format!("OS/2 usWidthClass {v} in the source came out as {got}"));
            }
        }
        "comp-scale" | "comp-offset" | "coord" | "coord-diff" | "lsb" | "var-delta" if true => {
            let glyphs = man["glyphs"].as_array().cloned().unwrap_or_default();
            let by_name: HashMap<String, &Value> = glyphs.iter().map(|g| (g["name"].as_str().unwrap().to_string(), g)).collect();
            let default_name = man["masters"][0]["name"].as_str().unwrap_or("");
            // rounding of a nested base and the 2.14 quantisation of a scale act on the base's coordinates
            let magnitude = glyphs.iter().filter_map(|g| g["layers"].get(default_name)).filter_map(|l| l["contours"].as_array()).flatten().filter_map(|c| c.as_array()).flatten()
                .map(|p| f(&p[0]).abs().max(f(&p[1]).abs())).fold(0.0f64, f64::max);
            // the probed glyph and every glyph that uses it
            for g in &glyphs {
                let name = g["name"].as_str().unwrap();
                let Some(&gid) = gid_of.get(name) else { continue };
                if !g["export"].as_bool().unwrap_or(true) {
                    continue;
                }
                // (plain outlines are compared exactly by the C03 oracle; this one is for the probed glyph and for composites)
                let has_components = g["layers"].get(default_name).and_then(|l| l["components"].as_array()).map(|c| !c.is_empty()).unwrap_or(false);
                if !has_components && Some(name) != b["glyph"].as_str() {
                    continue;
                }
                // stored deltas accumulated without wrapping must give the same points read-fonts reports
                if let (Some(raw), Ok(gp)) = (raw_simple_points(font, gid), vf::glyph_points(font, gid)) {
                    if !gp.composite {
                        out.stat("c19_raw_glyphs_decoded", 1.0);
                        if raw.len() != gp.pts.len() || raw.iter().zip(&gp.pts).any(|(r, p)| r.0 as f64 != p.0 || r.1 as f64 != p.1) {
                            let k = raw.iter().zip(&gp.pts).position(|(r, p)| r.0 as f64 != p.0 || r.1 as f64 != p.1).unwrap_or(0);
                            out.viol("C19", format!("glyph '{name}': a stored coordinate delta has wrapped around: accumulating glyf's deltas gives point {k} = {:?}, 16-bit wrapping arithmetic gives {:?}", raw.get(k), gp.pts.get(k)));
                        }
                    }
                }
                let Some(mut want) = source_points(&by_name, default_name, name, 0) else { continue };
                let mut got = match resolve(font, gid, 0) {
                    Ok(p) => p,
                    Err(e) => {
                        out.viol("C19", format!("glyph '{name}' cannot be resolved: {e}"));
                        continue;
                    }
                };
                out.stat("c19_shapes_compared", 1.0);
                if want.len() != got.len() {
                    out.viol("C19", format!("glyph '{name}': {} points in the font's resolved outline, {} in the source's", got.len(), want.len()));
                    continue;
                }
                // nesting rounds at each level and F2Dot14 quantises the 2x2: allow 1.5 units + 2^-14 * |coord| per level
                let key = |p: &(f64, f64)| (ot_round(p.0) as i64, ot_round(p.1) as i64);
                want.sort_by_key(key);
                got.sort_by_key(key);
                let mut unmatched = vec![];
                let mut pool = got.clone();
                for w in &want {
                    let tol = 2.5 + magnitude.max(w.0.abs().max(w.1.abs())) / 4096.0;
                    // nearest remaining point, not the first one in range
                    let best = pool.iter().enumerate().map(|(i, p)| (i, (p.0 - w.0).abs().max((p.1 - w.1).abs()))).min_by(|a, b| a.1.total_cmp(&b.1));
                    match best {
                        Some((i, d)) if d <= tol => {
                            pool.swap_remove(i);
                        }
                        _ => unmatched.push(*w),
                    }
                }
                if !unmatched.is_empty() {
                    out.viol("C19", format!("glyph '{name}': source points {:?} have no counterpart in the font's resolved outline (nearest candidates {:?})", &unmatched[..unmatched.len().min(3)], &pool[..pool.len().min(3)]));
                }
            }
        }
        "cubic-arch" => {
            let name = b["glyph"].as_str().unwrap_or("");
            let glyphs = man["glyphs"].as_array().cloned().unwrap_or_default();
            let default_name = man["masters"][0]["name"].as_str().unwrap_or("");
            let (Some(g), Some(&gid)) = (glyphs.iter().find(|g| g["name"].as_str() == Some(name)), gid_of.get(name)) else { return };
            let Some(layer) = g["layers"].get(default_name) else { return };
            let mut src = vec![];
            for c in layer["contours"].as_array().cloned().unwrap_or_default() {
                let pts: Vec<(f64, f64, String)> = c.as_array().unwrap().iter().map(|p| (f(&p[0]), f(&p[1]), p[2].as_str().unwrap_or("line").to_string())).collect();
                src.extend(sample_source(&pts));
            }
            let Ok(gp) = vf::glyph_points(font, gid) else { return };
            let got = sample_truetype(&gp);
            let bb = |v: &[(f64, f64)]| v.iter().fold((f64::MAX, f64::MAX, f64::MIN, f64::MIN), |a, p| (a.0.min(p.0), a.1.min(p.1), a.2.max(p.0), a.3.max(p.1)));
            let (s, g2) = (bb(&src), bb(&got));
            out.stat("c19_shapes_compared", 1.0);
            let tol = 3.0 + v * 0.004; // cu2qu tolerance is upem/1000; sampling error of a 32-step polyline
            if got.is_empty() || (s.0 - g2.0).abs() > tol || (s.1 - g2.1).abs() > tol || (s.2 - g2.2).abs() > tol || (s.3 - g2.3).abs() > tol {
                out.viol("C19", format!("glyph '{name}': the curve drawn by the font covers {g2:?} but the source curve covers {s:?} (tolerance {tol:.0})"));
            }
        }
        _ => {}
    }
}

fn lerp(a: (f64, f64), b: (f64, f64), t: f64) -> (f64, f64) {
    (a.0 + (b.0 - a.0) * t, a.1 + (b.1 - a.1) * t)
}

/// Sample a closed UFO contour (points typed line / curve / qcurve / off) as a polyline.
pub fn sample_source(pts: &[(f64, f64, String)]) -> Vec<(f64, f64)> {
    let n = pts.len();
    let Some(start) = pts.iter().position(|p| p.2 != "off") else { return vec![] };
    let mut out = vec![];
    let mut cur = (pts[start].0, pts[start].1);
    let mut offs: Vec<(f64, f64)> = vec![];
    for k in 1..=n {
        let p = &pts[(start + k) % n];
        if p.2 == "off" {
            offs.push((p.0, p.1));
            continue;
        }
        let end = (p.0, p.1);
        match (p.2.as_str(), offs.len()) {
            ("curve", 2) => {
                for i in 0..=32 {
                    let t = i as f64 / 32.0;
                    let (a, b2, c) = (lerp(cur, offs[0], t), lerp(offs[0], offs[1], t), lerp(offs[1], end, t));
                    out.push(lerp(lerp(a, b2, t), lerp(b2, c, t), t));
                }
            }
            ("qcurve", m) if m > 0 => {
                let mut s = cur;
                for (i, o) in offs.iter().enumerate() {
                    let e = if i + 1 < m { lerp(*o, offs[i + 1], 0.5) } else { end };
                    for j in 0..=32 {
                        let t = j as f64 / 32.0;
                        out.push(lerp(lerp(s, *o, t), lerp(*o, e, t), t));
                    }
                    s = e;
                }
            }
            _ => {
                out.push(cur);
                out.push(end);
            }
        }
        offs.clear();
        cur = end;
    }
    out
}

/// Sample a TrueType simple glyph (implied on-curve points between consecutive off-curve points).
pub fn sample_truetype(gp: &vf::GlyphPoints) -> Vec<(f64, f64)> {
    let mut out = vec![];
    let mut s = 0;
    for &e in &gp.contour_ends {
        if e >= gp.pts.len() || e < s {
            break;
        }
        let pts: Vec<(f64, f64, String)> = (s..=e).map(|i| (gp.pts[i].0, gp.pts[i].1, if gp.on_curve[i] { "qcurve".to_string() } else { "off".to_string() })).collect();
        if pts.iter().all(|p| p.2 == "off") {
            // all off-curve: start at the midpoint of the first two
            let m = lerp((pts[0].0, pts[0].1), (pts[1 % pts.len()].0, pts[1 % pts.len()].1), 0.5);
            let mut q = vec![(m.0, m.1, "qcurve".to_string())];
            q.extend(pts.iter().cloned().cycle().skip(1).take(pts.len()));
            out.extend(sample_source(&q));
        } else {
            // an on-curve point that ends a segment without off-curves is a line end: sample_source treats qcurve with 0 offs as a line
            out.extend(sample_source(&pts));
        }
        s = e + 1;
    }
    out
}


/// Two-way Hausdorff distance (per-axis metric) between two sets of closed polylines given as vertex lists per contour.
pub fn polylines_dist(a: &[Vec<(f64, f64)>], b: &[Vec<(f64, f64)>]) -> f64 {
    fn seg(p: (f64, f64), u: (f64, f64), v: (f64, f64)) -> f64 {
        let (dx, dy) = (v.0 - u.0, v.1 - u.1);
        let l2 = dx * dx + dy * dy;
        let t = if l2 == 0.0 { 0.0 } else { (((p.0 - u.0) * dx + (p.1 - u.1) * dy) / l2).clamp(0.0, 1.0) };
        (p.0 - (u.0 + t * dx)).abs().max((p.1 - (u.1 + t * dy)).abs())
    }
    let one = |x: &[Vec<(f64, f64)>], y: &[Vec<(f64, f64)>]| -> f64 {
        let mut worst: f64 = 0.0;
        for c in x {
            for p in c {
                let mut best = f64::INFINITY;
                for d in y {
                    for i in 0..d.len() {
                        best = best.min(seg(*p, d[i], d[(i + 1) % d.len()]));
                    }
                }
                worst = worst.max(best);
            }
        }
        worst
    };
    if a.is_empty() != b.is_empty() {
        return f64::INFINITY;
    }
    one(a, b).max(one(b, a))
}
