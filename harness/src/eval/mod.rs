pub mod sfnt;
pub mod walk;
pub mod xref;
