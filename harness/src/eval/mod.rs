pub mod sfnt;
pub mod walk;
pub mod xref;
pub mod src;
pub mod vf;
pub mod summary;
pub mod draw;
