//! C12: resolved outlines (drawn by skrifa as a *renderer*) compared between builds of the same source.
use serde_json::{json, Value};
use skrifa::{
    instance::{LocationRef, Size},
    outline::{DrawSettings, OutlinePen},
    raw::types::F2Dot14,
    GlyphId, MetadataProvider,
};

use super::src::{axes_of, expected_order};

#[derive(Default)]
struct Pen {
    contours: Vec<Vec<(f64, f64)>>,
    cur: Vec<(f64, f64)>,
}

impl OutlinePen for Pen {
    fn move_to(&mut self, x: f32, y: f32) {
        self.close();
        self.cur.push((x as f64, y as f64));
    }
    fn line_to(&mut self, x: f32, y: f32) {
        self.cur.push((x as f64, y as f64));
    }
    fn quad_to(&mut self, cx: f32, cy: f32, x: f32, y: f32) {
        // sample the curve so that on/off structure does not matter, only the shape
        let (x0, y0) = *self.cur.last().unwrap_or(&(0.0, 0.0));
        for k in 1..=4 {
            let t = k as f64 / 4.0;
            let a = (1.0 - t) * (1.0 - t);
            let b = 2.0 * t * (1.0 - t);
            let c = t * t;
            self.cur.push((a * x0 + b * cx as f64 + c * x as f64, a * y0 + b * cy as f64 + c * y as f64));
        }
    }
    fn curve_to(&mut self, c0x: f32, c0y: f32, c1x: f32, c1y: f32, x: f32, y: f32) {
        let (x0, y0) = *self.cur.last().unwrap_or(&(0.0, 0.0));
        for k in 1..=6 {
            let t = k as f64 / 6.0;
            let mt = 1.0 - t;
            let (a, b, c, d) = (mt * mt * mt, 3.0 * mt * mt * t, 3.0 * mt * t * t, t * t * t);
            self.cur.push((a * x0 + b * c0x as f64 + c * c1x as f64 + d * x as f64, a * y0 + b * c0y as f64 + c * c1y as f64 + d * y as f64));
        }
    }
    fn close(&mut self) {
        if !self.cur.is_empty() {
            let mut c = std::mem::take(&mut self.cur);
            if c.len() > 1 && c.first() == c.last() {
                c.pop();
            }
            self.contours.push(c);
        }
    }
}

fn draw(font: &skrifa::FontRef, gid: u32, coords: &[F2Dot14]) -> Option<(Vec<Vec<(f64, f64)>>, f64)> {
    let g = font.outline_glyphs().get(GlyphId::new(gid))?;
    let mut pen = Pen::default();
    g.draw(DrawSettings::unhinted(Size::unscaled(), LocationRef::new(coords)), &mut pen).ok()?;
    pen.close();
    let adv = font.glyph_metrics(Size::unscaled(), LocationRef::new(coords)).advance_width(GlyphId::new(gid)).unwrap_or(0.0) as f64;
    Some((pen.contours, adv))
}

/// max distance between two closed point sequences of equal length, best over rotation and direction
fn contour_dist(a: &[(f64, f64)], b: &[(f64, f64)]) -> f64 {
    if a.len() != b.len() || a.is_empty() {
        return f64::INFINITY;
    }
    let n = a.len();
    let mut best = f64::INFINITY;
    for rev in [false, true] {
        for rot in 0..n {
            let mut worst: f64 = 0.0;
            for k in 0..n {
                let j = if rev { (rot + n - k) % n } else { (rot + k) % n };
                let d = (a[k].0 - b[j].0).abs().max((a[k].1 - b[j].1).abs());
                worst = worst.max(d);
                if worst >= best {
                    break;
                }
            }
            best = best.min(worst);
        }
    }
    best
}

fn shape_dist(a: &[Vec<(f64, f64)>], b: &[Vec<(f64, f64)>]) -> f64 {
    if a.len() != b.len() {
        return f64::INFINITY;
    }
    let mut used = vec![false; b.len()];
    let mut worst: f64 = 0.0;
    for ca in a {
        let mut best = (f64::INFINITY, None);
        for (j, cb) in b.iter().enumerate() {
            if used[j] {
                continue;
            }
            let d = contour_dist(ca, cb);
            if d < best.0 {
                best = (d, Some(j));
            }
        }
        match best.1 {
            Some(j) => {
                used[j] = true;
                worst = worst.max(best.0);
            }
            None => return f64::INFINITY,
        }
    }
    worst
}

/// (nesting depth, amplification): rounding of a base glyph is magnified by the component's 2x2 on the way up
fn depth_of(name: &str, man: &Value, default_master: &str, seen: usize) -> (usize, f64) {
    if seen > 16 {
        return (seen, 1.0);
    }
    let Some(g) = man["glyphs"].as_array().and_then(|gs| gs.iter().find(|g| g["name"] == name)) else { return (0, 1.0) };
    let comps = g["layers"][default_master]["components"].as_array().cloned().unwrap_or_default();
    let mut best = (0usize, 1.0f64);
    for c in &comps {
        let (d, a) = depth_of(c["base"].as_str().unwrap_or(""), man, default_master, seen + 1);
        let m = c["xform"].as_array().map(|x| x.iter().take(4).map(|v| v.as_f64().unwrap_or(0.0).abs()).fold(0.0, f64::max)).unwrap_or(1.0).max(1.0);
        best = (best.0.max(d + 1), best.1.max(a * m));
    }
    best
}

/// args: manifest, reference font, then (label, font) pairs.  `extra_locs`: normalized locations besides the masters.
pub fn check(man: &Value, reference: &[u8], others: &[(String, Vec<u8>)], extra_locs: &[Vec<f64>]) -> Value {
    let mut violations: Vec<Value> = vec![];
    let order = expected_order(man);
    let axes = axes_of(man);
    let masters = man["masters"].as_array().cloned().unwrap_or_default();
    let default_master = masters.first().map(|m| m["name"].as_str().unwrap().to_string()).unwrap_or_default();
    let mut locs: Vec<Vec<f64>> = masters.iter().map(|m| axes.iter().map(|a| a.normalize_design(m["design_loc"][&a.tag].as_f64().unwrap_or(0.0))).collect()).collect();
    locs.extend(extra_locs.iter().cloned());
    if axes.is_empty() {
        locs = vec![vec![]];
    }
    let Ok(rf) = skrifa::FontRef::new(reference) else { return json!({"error": "reference font unreadable"}) };
    let (mut compared, mut stored_differently) = (0usize, 0usize);
    for (label, data) in others {
        let Ok(of) = skrifa::FontRef::new(data) else {
            violations.push(json!({"what": format!("{label}: font unreadable")}));
            continue;
        };
        for (gid, name) in order.iter().enumerate().skip(1) {
            let (depth, amp) = depth_of(name, man, &default_master, 0);
            for (li, l) in locs.iter().enumerate() {
                // the property's bound (1 unit per nesting level) is stated for master locations; in between, every build
                // additionally carries its own delta rounding (scaled by the component transform), so only gross changes are judged
                // a scaled component magnifies the base glyph's own rounding: (amp - 1) extra units of slack per level, twice
                // (base rounding and delta rounding)
                let per_level = 1.05 + 2.0 * (amp - 1.0);
                let tol = if li < masters.len().max(1) { per_level * depth.max(1) as f64 + 0.01 } else { (per_level + 1.45) * depth.max(1) as f64 + 1.0 };
                let coords: Vec<F2Dot14> = l.iter().map(|v| F2Dot14::from_f32(*v as f32)).collect();
                let (Some((ra, radv)), Some((oa, oadv))) = (draw(&rf, gid as u32, &coords), draw(&of, gid as u32, &coords)) else {
                    violations.push(json!({"what": format!("{label}: glyph '{name}' cannot be drawn at {l:?}")}));
                    continue;
                };
                compared += 1;
                if (radv - oadv).abs() > 1e-3 {
                    violations.push(json!({"what": format!("{label}: glyph '{name}' at {l:?}: advance {oadv} vs {radv} with all components decomposed"), "glyph": name, "opts": label}));
                }
                let d = shape_dist(&ra, &oa);
                if d > tol {
                    violations.push(json!({"what": format!("{label}: glyph '{name}' (nesting depth {depth}) at {l:?}: resolved outline differs from the fully decomposed build by {d:.2} units (allowed {tol:.2}); {} vs {} contours", oa.len(), ra.len()), "glyph": name, "opts": label}));
                }
            }
            if depth > 0 {
                stored_differently += 1;
            }
        }
    }
    json!({"violations": violations, "glyph_location_comparisons": compared, "composite_glyph_builds": stored_differently})
}
