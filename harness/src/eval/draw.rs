//! C12: resolved outlines (drawn by skrifa as a *renderer*) compared between builds of the same source.
use serde_json::{json, Value};
use skrifa::{
    instance::{LocationRef, Size},
    outline::{DrawSettings, OutlinePen},
    raw::types::F2Dot14,
    GlyphId, MetadataProvider,
};

use super::src::{axes_of, expected_order};

#[derive(Default)]
struct Pen {
    contours: Vec<Vec<(f64, f64)>>,
    cur: Vec<(f64, f64)>,
}

impl OutlinePen for Pen {
    fn move_to(&mut self, x: f32, y: f32) {
        self.close();
        self.cur.push((x as f64, y as f64));
    }
    fn line_to(&mut self, x: f32, y: f32) {
        self.cur.push((x as f64, y as f64));
    }
    fn quad_to(&mut self, cx: f32, cy: f32, x: f32, y: f32) {
        // sample the curve so that on/off structure does not matter, only the shape
        let (x0, y0) = *self.cur.last().unwrap_or(&(0.0, 0.0));
        for k in 1..=4 {
            let t = k as f64 / 4.0;
            let a = (1.0 - t) * (1.0 - t);
            let b = 2.0 * t * (1.0 - t);
            let c = t * t;
            self.cur.push((a * x0 + b * cx as f64 + c * x as f64, a * y0 + b * cy as f64 + c * y as f64));
        }
    }
    fn curve_to(&mut self, c0x: f32, c0y: f32, c1x: f32, c1y: f32, x: f32, y: f32) {
        let (x0, y0) = *self.cur.last().unwrap_or(&(0.0, 0.0));
        for k in 1..=6 {
            let t = k as f64 / 6.0;
            let mt = 1.0 - t;
            let (a, b, c, d) = (mt * mt * mt, 3.0 * mt * mt * t, 3.0 * mt * t * t, t * t * t);
            self.cur.push((a * x0 + b * c0x as f64 + c * c1x as f64 + d * x as f64, a * y0 + b * c0y as f64 + c * c1y as f64 + d * y as f64));
        }
    }
    fn close(&mut self) {
        if !self.cur.is_empty() {
            let mut c = std::mem::take(&mut self.cur);
            if c.len() > 1 && c.first() == c.last() {
                c.pop();
            }
            self.contours.push(c);
        }
    }
}

fn draw(font: &skrifa::FontRef, gid: u32, coords: &[F2Dot14]) -> Option<(Vec<Vec<(f64, f64)>>, f64)> {
    let g = font.outline_glyphs().get(GlyphId::new(gid))?;
    let mut pen = Pen::default();
    g.draw(DrawSettings::unhinted(Size::unscaled(), LocationRef::new(coords)), &mut pen).ok()?;
    pen.close();
    let adv = font.glyph_metrics(Size::unscaled(), LocationRef::new(coords)).advance_width(GlyphId::new(gid)).unwrap_or(0.0) as f64;
    Some((pen.contours, adv))
}

/// max distance between two closed point sequences of equal length, best over rotation and direction
fn seg_dist(p: (f64, f64), a: (f64, f64), b: (f64, f64)) -> f64 {
    let (dx, dy) = (b.0 - a.0, b.1 - a.1);
    let l2 = dx * dx + dy * dy;
    let t = if l2 == 0.0 { 0.0 } else { (((p.0 - a.0) * dx + (p.1 - a.1) * dy) / l2).clamp(0.0, 1.0) };
    let (qx, qy) = (a.0 + t * dx, a.1 + t * dy);
    // per-axis distance, like the vertex-wise comparison
    (p.0 - qx).abs().max((p.1 - qy).abs())
}

/// Hausdorff distance between two closed polylines (vertices of one against the segments of the other, both ways):
/// used when the renderer emitted a different number of points for the same shape (a closing point that coincides with
/// the start is dropped at some locations and not at others).
fn polyline_dist(a: &[(f64, f64)], b: &[(f64, f64)]) -> f64 {
    let one = |x: &[(f64, f64)], y: &[(f64, f64)]| -> f64 {
        x.iter().map(|p| (0..y.len()).map(|i| seg_dist(*p, y[i], y[(i + 1) % y.len()])).fold(f64::INFINITY, f64::min)).fold(0.0, f64::max)
    };
    one(a, b).max(one(b, a))
}

fn contour_dist(a: &[(f64, f64)], b: &[(f64, f64)]) -> f64 {
    if a.is_empty() || b.is_empty() {
        return f64::INFINITY;
    }
    if a.len() != b.len() {
        return if a.len().abs_diff(b.len()) <= 2 { polyline_dist(a, b) } else { f64::INFINITY };
    }
    let n = a.len();
    let mut best = f64::INFINITY;
    for rev in [false, true] {
        for rot in 0..n {
            let mut worst: f64 = 0.0;
            for k in 0..n {
                let j = if rev { (rot + n - k) % n } else { (rot + k) % n };
                let d = (a[k].0 - b[j].0).abs().max((a[k].1 - b[j].1).abs());
                worst = worst.max(d);
                if worst >= best {
                    break;
                }
            }
            best = best.min(worst);
        }
    }
    best
}

/// Bottleneck distance between two sets of contours: the smallest d such that the contours can be paired one to one
/// with every pair within d (exact: threshold search over the pairwise distances + bipartite matching).
fn shape_dist(a: &[Vec<(f64, f64)>], b: &[Vec<(f64, f64)>]) -> f64 {
    if a.len() != b.len() {
        return f64::INFINITY;
    }
    let n = a.len();
    if n == 0 {
        return 0.0;
    }
    let dist: Vec<Vec<f64>> = a.iter().map(|ca| b.iter().map(|cb| contour_dist(ca, cb)).collect()).collect();
    let mut cands: Vec<f64> = dist.iter().flatten().copied().filter(|d| d.is_finite()).collect();
    cands.sort_by(|x, y| x.total_cmp(y));
    cands.dedup();
    fn try_match(i: usize, lim: f64, dist: &[Vec<f64>], seen: &mut [bool], owner: &mut [Option<usize>]) -> bool {
        for j in 0..dist.len() {
            if dist[i][j] <= lim && !seen[j] {
                seen[j] = true;
                if owner[j].is_none() || try_match(owner[j].unwrap(), lim, dist, seen, owner) {
                    owner[j] = Some(i);
                    return true;
                }
            }
        }
        false
    }
    let perfect = |lim: f64| -> bool {
        let mut owner = vec![None; n];
        (0..n).all(|i| {
            let mut seen = vec![false; n];
            try_match(i, lim, &dist, &mut seen, &mut owner)
        })
    };
    let (mut lo, mut hi) = (0usize, cands.len());
    if cands.is_empty() || !perfect(cands[cands.len() - 1]) {
        return f64::INFINITY;
    }
    while lo < hi {
        let mid = (lo + hi) / 2;
        if perfect(cands[mid]) {
            hi = mid;
        } else {
            lo = mid + 1;
        }
    }
    cands[lo]
}

/// (nesting depth, amplification): rounding of a base glyph is magnified by the component's 2x2 on the way up
fn depth_of(name: &str, man: &Value, default_master: &str, seen: usize) -> (usize, f64) {
    if seen > 16 {
        return (seen, 1.0);
    }
    let Some(g) = man["glyphs"].as_array().and_then(|gs| gs.iter().find(|g| g["name"] == name)) else { return (0, 1.0) };
    let comps = g["layers"][default_master]["components"].as_array().cloned().unwrap_or_default();
    let mut best = (0usize, 1.0f64);
    for c in &comps {
        let (d, a) = depth_of(c["base"].as_str().unwrap_or(""), man, default_master, seen + 1);
        // worst-case magnification of a per-axis rounding error: the larger absolute row sum of the 2x2 (x' = a x + c y, y' = b x + d y)
        let m = c["xform"].as_array().map(|x| {
            let v: Vec<f64> = x.iter().take(4).map(|v| v.as_f64().unwrap_or(0.0).abs()).collect();
            if v.len() == 4 { (v[0] + v[2]).max(v[1] + v[3]) } else { 1.0 }
        }).unwrap_or(1.0).max(1.0);
        best = (best.0.max(d + 1), best.1.max(a * m));
    }
    best
}

fn layer_names(name: &str, man: &Value) -> Vec<String> {
    man["glyphs"].as_array().and_then(|gs| gs.iter().find(|g| g["name"].as_str() == Some(name))).and_then(|g| g["layers"].as_object()).map(|l| l.keys().cloned().collect()).unwrap_or_default()
}

fn glyph_of<'a>(name: &str, man: &'a Value) -> Option<&'a Value> {
    man["glyphs"].as_array().and_then(|gs| gs.iter().find(|g| g["name"].as_str() == Some(name)))
}

fn components_of(name: &str, man: &Value) -> Vec<String> {
    glyph_of(name, man).and_then(|g| g["layers"].as_object())
        .map(|l| l.values().flat_map(|layer| layer["components"].as_array().cloned().unwrap_or_default()).filter_map(|c| c["base"].as_str().map(|s| s.to_string())).collect()).unwrap_or_default()
}

/// Every *exported* glyph in the component closure has exactly the masters `own`: only then do the composite (each
/// component interpolated by its own model) and the decomposed outline (interpolated by the glyph's model) agree between
/// masters.  Non-exported components are inlined at the parent's masters by every build alike, so they do not matter.
fn closure_same_masters(name: &str, man: &Value, own: &[String], depth: usize) -> bool {
    let exported = glyph_of(name, man).map(|g| g["export"].as_bool().unwrap_or(true)).unwrap_or(true);
    if exported {
        let mut mine = layer_names(name, man);
        let mut want = own.to_vec();
        mine.sort();
        want.sort();
        if mine != want {
            return false;
        }
    }
    depth <= 8 && components_of(name, man).iter().all(|c| closure_same_masters(c, man, own, depth + 1))
}

/// Every exported glyph in the closure has a layer at master `m` (else the composite takes that component from its own
/// interpolation, the decomposed outline from the compiler's - the property only fixes the latter for non-exported ones).
fn closure_has_master(name: &str, man: &Value, m: &str, depth: usize) -> bool {
    let exported = glyph_of(name, man).map(|g| g["export"].as_bool().unwrap_or(true)).unwrap_or(true);
    if exported && !layer_names(name, man).iter().any(|l| l == m) {
        return false;
    }
    depth <= 8 && components_of(name, man).iter().all(|c| closure_has_master(c, man, m, depth + 1))
}

/// Some exported *composite* in the closure has no layer at master `m`: its instance there can be taken by interpolating
/// its component placements (and drawing the components at `m`) or by interpolating its decomposed outline - the builds
/// differ in which (finding F37).  A *simple* glyph without that master is interpolated the same way by every build.
fn nested_sparse_at(name: &str, man: &Value, m: &str, depth: usize) -> bool {
    let exported = glyph_of(name, man).map(|g| g["export"].as_bool().unwrap_or(true)).unwrap_or(true);
    let comps = components_of(name, man);
    if depth > 0 && exported && !comps.is_empty() && !layer_names(name, man).iter().any(|l| l == m) {
        return true;
    }
    depth <= 8 && comps.iter().any(|c| nested_sparse_at(c, man, m, depth + 1))
}

/// args: manifest, reference font, then (label, font) pairs.  `extra_locs`: normalized locations besides the masters.
pub fn check(man: &Value, reference: &[u8], others: &[(String, Vec<u8>)], extra_locs: &[Vec<f64>]) -> Value {
    let mut violations: Vec<Value> = vec![];
    let order = expected_order(man);
    let axes = axes_of(man);
    let masters = man["masters"].as_array().cloned().unwrap_or_default();
    let default_master = masters.first().map(|m| m["name"].as_str().unwrap().to_string()).unwrap_or_default();
    let mut locs: Vec<Vec<f64>> = masters.iter().map(|m| axes.iter().map(|a| a.normalize_design(m["design_loc"][&a.tag].as_f64().unwrap_or(0.0))).collect()).collect();
    locs.extend(extra_locs.iter().cloned());
    if axes.is_empty() {
        locs = vec![vec![]];
    }
    let Ok(rf) = skrifa::FontRef::new(reference) else { return json!({"error": "reference font unreadable"}) };
    let (mut compared, mut stored_differently, mut partial) = (0usize, 0usize, 0usize);
    for (label, data) in others {
        let Ok(of) = skrifa::FontRef::new(data) else {
            violations.push(json!({"what": format!("{label}: font unreadable")}));
            continue;
        };
        for (gid, name) in order.iter().enumerate().skip(1) {
            let (depth, amp) = depth_of(name, man, &default_master, 0);
            // The property speaks of the glyph's master locations.  A global master at which the glyph itself has no layer is,
            // for this glyph, an in-between location; and when some glyph in its component closure has a different master set
            // (a sparse layer of a component, a component missing one of the glyph's masters), the composite interpolates each
            // component by its own model while the decomposed outline only has the glyph's masters: in-between locations are
            // then not comparable at all.
            let own = layer_names(name, man);
            let comparable_between = closure_same_masters(name, man, &own, 0);
            for (li, l) in locs.iter().enumerate() {
                let at_own_master = li < masters.len().max(1) && (axes.is_empty() || masters.get(li).and_then(|m| m["name"].as_str()).map(|m| closure_has_master(name, man, m, 0)).unwrap_or(false));
                // a master of the glyph itself at which some exported component has no layer: every build takes that component
                // from the component's own interpolation there (kept as a component: its gvar; decomposed: the compiler's
                // instance of it) - comparable, with the in-between tolerance for the interpolated part
                let own_layer_here = !axes.is_empty() && li < masters.len() && masters.get(li).and_then(|m| m["name"].as_str()).map(|m| own.iter().any(|o| o == m)).unwrap_or(false);
                if !at_own_master && !comparable_between && !own_layer_here {
                    continue;
                }
                let mut class = "";
                if own_layer_here && !at_own_master && !comparable_between {
                    partial += 1;
                    if masters.get(li).and_then(|m| m["name"].as_str()).map(|m| nested_sparse_at(name, man, m, 0)).unwrap_or(false) {
                        class = "nested-sparse-composite";
                    }
                }
                // the property's bound (1 unit per nesting level) is stated for master locations; in between, every build
                // additionally carries its own delta rounding (scaled by the component transform), so only gross changes are judged
                // a scaled component magnifies the base glyph's own rounding: (amp - 1) extra units of slack per level, twice
                // (base rounding and delta rounding)
                // At a master the composite's base outline comes from glyf+gvar: rounded master (0.5) plus the IUP tolerance (0.5),
                // magnified by the component's 2x2, plus the rounded offset (0.5); the decomposed outline carries its own final
                // rounding and IUP tolerance (1.0).  Worst case per level: amp + 1.5.
                let per_level = amp + 1.5;
                let tol = if at_own_master { per_level * depth.max(1) as f64 + 0.01 } else { (per_level + 1.45) * depth.max(1) as f64 + 1.0 };
                let coords: Vec<F2Dot14> = l.iter().map(|v| F2Dot14::from_f32(*v as f32)).collect();
                let (Some((ra, radv)), Some((oa, oadv))) = (draw(&rf, gid as u32, &coords), draw(&of, gid as u32, &coords)) else {
                    violations.push(json!({"what": format!("{label}: glyph '{name}' cannot be drawn at {l:?}")}));
                    continue;
                };
                compared += 1;
                // (in between, a composite flagged USE_MY_METRICS takes its advance from a component whose own rounding may differ by a unit)
                // at a master each build is allowed to be 1 unit off the source advance (property C04: per-region delta rounding),
                // so two builds may legitimately be 1 apart there - e.g. 598 vs 598.5 rounded up
                if (radv - oadv).abs() > if at_own_master { 1.0 + 1e-3 } else { 2.0 } {
                    violations.push(json!({"what": format!("{label}: glyph '{name}' at {l:?}: advance {oadv} vs {radv} with all components decomposed"), "glyph": name, "opts": label, "class": class}));
                }
                let d = shape_dist(&ra, &oa);
                if d > tol {
                    violations.push(json!({"what": format!("{label}: glyph '{name}' (nesting depth {depth}) at {l:?}: resolved outline differs from the fully decomposed build by {d:.2} units (allowed {tol:.2}); {} vs {} contours", oa.len(), ra.len()), "glyph": name, "opts": label, "class": class}));
                }
            }
            if depth > 0 {
                stored_differently += 1;
            }
        }
    }
    json!({"violations": violations, "glyph_location_comparisons": compared, "composite_glyph_builds": stored_differently, "comparisons_at_masters_a_component_lacks": partial})
}
