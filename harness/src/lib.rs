//! Independent evaluators and monitors used by the /verif checks.
pub mod eval;
