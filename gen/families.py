"""Generator families: knob presets that switch on the dimensions a property's mechanisms depend on."""
import random

from . import model as M

FAMILIES = {
    # name: knobs for model.build
    "static-basic": dict(n_axes=0, n_glyphs=10, composites=0.3),
    "static-noorder": dict(n_axes=0, n_glyphs=14, glyph_order="none", composites=0.2),
    "var1-onaxis": dict(n_axes=1, layout="onaxis", n_glyphs=8),
    "var1-intermediate": dict(n_axes=1, layout="intermediate", n_glyphs=8, sparse_layers=1),
    "var2-corners": dict(n_axes=2, layout="corners", n_glyphs=8),
    "var2-mixed-sparse": dict(n_axes=2, layout="mixed", n_glyphs=10, sparse_glyphs=0.5, sparse_layers=2),
    "var3-mixed": dict(n_axes=3, layout="mixed", n_glyphs=6, sparse_glyphs=0.3),
    # brace layers hanging off non-default masters ("-g": always rendered as a Glyphs source when expressible)
    "var2-brace-g": dict(n_axes=2, layout="corners", n_glyphs=6, sparse_layers=3, sparse_glyphs=0.2),
    "var3-brace-g": dict(n_axes=3, layout="corners", n_glyphs=5, sparse_layers=3),
    "var2-diagonal": dict(n_axes=2, layout="diagonal", n_glyphs=6, composites=0.3),
    "var3-diagonal": dict(n_axes=3, layout="diagonal", n_glyphs=5, composites=0.2, mapped=0.2),
    "var2-ties": dict(n_axes=2, layout="offaxis", n_glyphs=6, composites=0.3, mapped=0.0, post=lambda m, r: M.tie_values(m, r)),
    "var1-noorder": dict(n_axes=1, layout="onaxis", n_glyphs=16, glyph_order="none"),
    "var2-partialorder": dict(n_axes=2, layout="onaxis", n_glyphs=12, glyph_order="partial", notdef="middle"),
    "var1-vertical": dict(n_axes=1, layout="intermediate", n_glyphs=8, vertical=True),
    # vertical metrics + feature-file tables that override header fields: the table the feature compiler hands over is merged with the measured one
    "vertical-fea-tables": dict(n_axes=1, layout="onaxis", n_glyphs=8, vertical=True, composites=0.3,
                                features="languagesystem DFLT dflt;\ntable vhea {\n  VertTypoAscender 520;\n  VertTypoDescender -480;\n  VertTypoLineGap 1000;\n} vhea;\n"
                                         "table hhea {\n  CaretOffset -50;\n  Ascender 800;\n  Descender -200;\n  LineGap 190;\n} hhea;\n"),
    "vertical-fea-tables-static": dict(n_axes=0, n_glyphs=9, vertical=True, features="table vhea {\n  VertTypoAscender 500;\n  VertTypoDescender -500;\n  VertTypoLineGap 1000;\n} vhea;\n"),
    "var2-nested-xform": dict(n_axes=2, layout="onaxis", n_glyphs=12, composites=0.5, nested=True, transforms="scale"),
    "var1-nonexport": dict(n_axes=1, layout="intermediate", n_glyphs=12, composites=0.5, nested=True, non_export=3, sparse_glyphs=0.4),
    "var1-mixedglyphs": dict(n_axes=1, layout="onaxis", n_glyphs=14, composites=0.7, mixed_glyphs=0.8),  # several mixed glyphs in every draw
    "var1-cubic": dict(n_axes=1, layout="onaxis", n_glyphs=8, curves="cubic"),
    "var2-cubic-sparse": dict(n_axes=2, layout="mixed", n_glyphs=8, curves="cubic", sparse_glyphs=0.4, sparse_layers=1),
    "c06-partial-notdef-mid": dict(n_axes=0, n_glyphs=14, glyph_order="partial", notdef="middle", unicodes="multi", composites=0.4, non_export=2, nested=True),
    "c06-none-notdef-last": dict(n_axes=1, layout="onaxis", n_glyphs=12, glyph_order="none", notdef="last", unicodes="multi", post=lambda m, r: M.reuse_default_source(m, r)),
    "c06-full-notdef-first": dict(n_axes=0, n_glyphs=12, glyph_order="full", notdef="first", unicodes="multi", non_export=3, composites=0.5, nested=True),
    "c06-full-nonotdef": dict(n_axes=1, layout="onaxis", n_glyphs=10, glyph_order="full", notdef="absent", unicodes="multi", non_export=2, composites=0.4, post=lambda m, r: M.reuse_default_source(m, r)),
    "c06-prodnames": dict(n_axes=0, n_glyphs=12, glyph_order="partial", notdef="middle", unicodes="multi", post=lambda m, r: M.production_names(m, r)),
    "c06-mixed": dict(n_axes=1, layout="onaxis", n_glyphs=10, composites=0.5, mixed_glyphs=0.6, glyph_order="partial", notdef="last"),
    "c08-1axis": dict(n_axes=1, layout="onaxis", n_glyphs=1, mapped=0.0, instances=3, post=lambda m, r: M.hostile_axes(m, r)),
    "c08-2axis": dict(n_axes=2, layout="onaxis", n_glyphs=1, mapped=0.0, instances=3, post=lambda m, r: M.hostile_axes(m, r)),
    "c08-3axis-int": dict(n_axes=3, layout="intermediate", n_glyphs=2, mapped=0.0, instances=2, post=lambda m, r: M.hostile_axes(m, r)),
    "c17-special-static": dict(n_axes=0, n_glyphs=14, composites=0.5, nested=True, transforms="scale", unicodes="multi", post=lambda m, r: M.summary_special(m, r)),
    "c17-special-var": dict(n_axes=1, layout="onaxis", n_glyphs=12, composites=0.5, nested=True, transforms="rotate", vertical=True, post=lambda m, r: M.summary_special(m, r)),
    "c12-nested-scale": dict(n_axes=1, layout="onaxis", n_glyphs=12, composites=0.6, nested=True, transforms="scale", curves="quad"),
    "c12-nested-rotate": dict(n_axes=2, layout="onaxis", n_glyphs=10, composites=0.6, nested=True, transforms="rotate", mixed_glyphs=0.3),
    "c12-nonexport-sparse": dict(n_axes=1, layout="intermediate", n_glyphs=12, composites=0.6, nested=True, transforms="scale", non_export=3, sparse_glyphs=0.4, sparse_layers=1),
    "c12-sparse-leaf": dict(n_axes=1, layout="intermediate", n_glyphs=12, composites=0.6, nested=False, transforms="scale", sparse_glyphs=0.7),
    "c12-sparse-leaf2": dict(n_axes=2, layout="mixed", n_glyphs=12, composites=0.6, nested=False, transforms="none", sparse_glyphs=0.7, mixed_glyphs=0.3),
    "c12-mixed-static": dict(n_axes=0, n_glyphs=12, composites=0.6, nested=True, transforms="scale", mixed_glyphs=0.5),
    "c12-overflow": dict(n_axes=1, layout="onaxis", n_glyphs=10, composites=0.6, nested=True, transforms="overflow", mixed_glyphs=0.35),
    "kern-static": dict(n_axes=0, n_glyphs=12, composites=0.0, kern=dict(pairs=25)),
    "kern-var1": dict(n_axes=1, layout="onaxis", n_glyphs=14, composites=0.0, kern=dict(pairs=30, partial=0.3)),
    "kern-divergent": dict(n_axes=2, layout="corners", n_glyphs=16, composites=0.0, kern=dict(pairs=40, divergent=0.8, partial=0.2)),
    "kern-many": dict(n_axes=1, layout="onaxis", n_glyphs=40, composites=0.0, kern=dict(pairs=400, exceptions=0.1)),
    "kern-intermediate": dict(n_axes=1, layout="intermediate", n_glyphs=12, composites=0.0, kern=dict(pairs=25, divergent=0.5)),
    "kern-nogroups": dict(n_axes=1, layout="onaxis", n_glyphs=10, composites=0.0, kern=dict(pairs=30, groups=False, partial=0.3)),
    "kern-exceptions": dict(n_axes=2, layout="onaxis", n_glyphs=14, composites=0.0, kern=dict(pairs=40, exceptions=0.8, divergent=0.5, partial=0.2)),
    "kern-3x3": dict(n_axes=2, layout="mixed", n_glyphs=12, composites=0.0, kern=dict(pairs=30, divergent=0.6, partial=0.3)),
    "names-static": dict(n_axes=0, n_glyphs=4, composites=0.0, post=lambda m, r: M.naming(m, r)),
    "names-var1": dict(n_axes=1, layout="onaxis", n_glyphs=4, composites=0.0, mapped=0.3, post=lambda m, r: M.naming(m, r)),
    "names-var2": dict(n_axes=2, layout="onaxis", n_glyphs=4, composites=0.0, mapped=0.3, post=lambda m, r: M.naming(m, r)),
    "names-var1-collide": dict(n_axes=1, layout="onaxis", n_glyphs=4, composites=0.0, mapped=0.0, post=lambda m, r: M.naming(m, r, collide=0.95, fea=0.8)),
    "names-twin": dict(n_axes=1, layout="onaxis", n_glyphs=3, composites=0.0, mapped=0.0, post=lambda m, r: M.naming(m, r, collide=0.5, fea=0.2, twin=True)),
    "bnd-static": dict(n_axes=0, n_glyphs=8, composites=0.4, transforms="scale", vertical=True, post=lambda m, r: M.boundary(m, r)),
    "bnd-var1": dict(n_axes=1, layout="onaxis", n_glyphs=8, composites=0.4, post=lambda m, r: M.boundary(m, r)),
    "bnd-corners": dict(n_axes=2, layout="corners", n_glyphs=5, composites=0.2, mapped=0.0, post=lambda m, r: M.boundary(m, r, kind="corner-delta")),
    "bnd-compscale": dict(n_axes=1, layout="onaxis", n_glyphs=8, composites=0.6, nested=True, post=lambda m, r: M.boundary(m, r, kind="comp-scale")),
    "bnd-var2": dict(n_axes=2, layout="onaxis", n_glyphs=6, composites=0.4, nested=True, post=lambda m, r: M.boundary(m, r)),
    "rules-var1": dict(n_axes=1, layout="onaxis", n_glyphs=11, composites=0.0, curves="lines", ext_glyph_names=M.RULE_GLYPHS, mapped=0.5, post=lambda m, r: M.add_rules(m, r)),
    "rules-var2": dict(n_axes=2, layout="onaxis", n_glyphs=11, composites=0.0, curves="lines", ext_glyph_names=M.RULE_GLYPHS, mapped=0.5, post=lambda m, r: M.add_rules(m, r)),
    "rules-var3": dict(n_axes=3, layout="onaxis", n_glyphs=11, composites=0.0, curves="lines", ext_glyph_names=M.RULE_GLYPHS, mapped=0.3, post=lambda m, r: M.add_rules(m, r)),
    "c20-source-flags": dict(n_axes=0, n_glyphs=10, composites=0.6, nested=True, transforms="scale", post=lambda m, r: M.source_flags(m, r)),
    "marks-static": dict(n_axes=0, n_glyphs=8, composites=0.0, marks=dict(n_groups=2)),
    "marks-var1": dict(n_axes=1, layout="onaxis", n_glyphs=8, composites=0.0, marks=dict(n_groups=3, n_marks=4)),
    "marks-var2": dict(n_axes=2, layout="corners", n_glyphs=8, composites=0.0, marks=dict(n_groups=2, n_ligs=2, mkmk=0.9)),
    "marks-intermediate": dict(n_axes=1, layout="intermediate", n_glyphs=8, composites=0.0, sparse_layers=1, marks=dict(n_groups=3, n_ligs=2)),
    "marks-propagate": dict(n_axes=1, layout="onaxis", n_glyphs=10, composites=0.0, marks=dict(n_groups=3, n_marks=3, uncategorised=0.4, propagate=3)),
    "marks-propagate-static": dict(n_axes=0, n_glyphs=10, composites=0.0, marks=dict(n_groups=2, n_marks=3, uncategorised=0.4, propagate=3)),
    "marks-stacked": dict(n_axes=1, layout="onaxis", n_glyphs=8, composites=0.0, marks=dict(n_groups=2, n_marks=4, mkmk=0.6, second_only=1.0)),
    "marks-multi": dict(n_axes=1, layout="onaxis", n_glyphs=10, composites=0.0, marks=dict(n_groups=4, n_marks=5, multi_mark=0.6, mkmk=0.7)),
}

BY_PROPERTY = {
    "C01": ["var2-ties", "var2-diagonal", "var3-diagonal", "static-noorder", "var1-noorder", "var2-mixed-sparse", "var2-partialorder", "var1-nonexport", "var2-nested-xform",
            "var1-mixedglyphs", "var3-mixed", "var1-vertical", "var1-cubic", "kern-many", "kern-divergent", "kern-var1"],
    "C02": ["var1-mixedglyphs", "var1-nonexport", "var2-mixed-sparse", "static-noorder", "var2-partialorder", "kern-many", "kern-var1", "kern-static"],
    "C03": ["var2-ties", "var2-diagonal", "var1-cubic", "var2-brace-g", "var2-cubic-sparse", "var1-onaxis", "var1-intermediate", "var2-corners", "var2-mixed-sparse", "var3-mixed", "var1-vertical", "var2-nested-xform", "var1-nonexport", "var1-noorder"],
    "C04": ["var2-ties", "var3-diagonal", "var1-onaxis", "var3-brace-g", "var1-intermediate", "var2-corners", "var2-mixed-sparse", "var3-mixed", "var1-vertical", "var1-vertical", "var2-partialorder"],
    "C06": ["c06-partial-notdef-mid", "c06-none-notdef-last", "c06-full-notdef-first", "c06-full-nonotdef", "c06-prodnames", "c06-mixed", "static-noorder", "var1-nonexport", "var2-partialorder"],
    "C08": ["c08-1axis", "c08-2axis", "c08-3axis-int", "c08-1axis"],
    "C17": ["vertical-fea-tables", "c17-special-static", "c17-special-var", "var2-nested-xform", "c17-special-static", "var1-vertical", "c06-partial-notdef-mid", "kern-static"],
    "C12": ["c12-nested-scale", "c12-sparse-leaf", "c12-nested-rotate", "c12-nonexport-sparse", "c12-mixed-static", "c12-overflow", "var2-nested-xform", "c12-sparse-leaf2"],
    # every kind of font the other checks produce, for the walker: layout tables from kerning / anchors / feature code /
    # rules, names from feature code, nested and transformed composites, sparse and diagonal masters, cubic outlines
    "C05": ["vertical-fea-tables", "vertical-fea-tables-static", "var2-nested-xform", "names-var1-collide", "kern-many", "marks-var2", "rules-var2", "var2-mixed-sparse", "names-var1", "var3-diagonal",
            "c12-nonexport-sparse", "marks-propagate", "var1-cubic", "static-noorder", "kern-divergent", "names-static", "c17-special-var",
            "marks-intermediate", "rules-var1", "var1-mixedglyphs", "c06-partial-notdef-mid", "names-twin", "var1-vertical", "c12-overflow",
            "kern-static", "marks-static", "var2-diagonal", "rules-var3", "c17-special-static", "var1-nonexport"],
    "C09": ["kern-static", "kern-var1", "kern-divergent", "kern-many", "kern-intermediate", "kern-nogroups", "kern-exceptions", "kern-3x3"],
    "C10": ["marks-static", "marks-var1", "marks-propagate", "marks-var2", "marks-intermediate", "marks-propagate-static", "marks-multi", "marks-propagate", "marks-stacked"],
    "C16": ["rules-var1", "rules-var2", "rules-var2", "rules-var3"],
    "C18": ["names-var1", "names-var2", "names-static", "names-var1-collide", "names-twin", "names-var1-collide"],
    "C19": ["bnd-static", "bnd-var1", "bnd-compscale", "bnd-var2", "bnd-static", "bnd-compscale", "bnd-corners", "bnd-compscale"],
    "C14": ["var1-noorder", "var2-mixed-sparse", "var1-mixedglyphs", "kern-var1", "kern-intermediate", "kern-divergent"],
}


def make(family, seed, index, overrides=None):
    rng = random.Random(f"{family}:{seed}:{index}")
    knobs = dict(FAMILIES[family])
    knobs.update(overrides or {})
    kern = knobs.pop("kern", None)
    marks = knobs.pop("marks", None)
    if marks:
        n = knobs.get("n_glyphs", 8)
        knobs["ext_glyph_names"] = M.MARK_NAMES[:marks.get("n_marks", 3)] + M.LIG_NAMES[:marks.get("n_ligs", 1)] + rng.sample(M.LATIN, n)
        knobs["n_glyphs"] = len(knobs["ext_glyph_names"])
    post = knobs.pop("post", None)
    m = M.build(rng, family=family.replace("-", ""), **knobs)
    if kern:
        M.add_kerning(m, rng, **kern)
    if marks:
        M.add_anchors(m, rng, **marks)
    if post:
        post(m, rng)
    m["family_id"] = family
    m["seed"] = seed
    m["index"] = index
    return m
