"""Render a design model (gen/model.py) to a Glyphs 3 source (.glyphs) plus manifest.json - the second front end.

Only the part of the model Glyphs can express is accepted (`expressible(model)`): identity axis maps, diagonal
component transforms (scale / flip), kerning groups that are the same in every master (Glyphs stores the group on the
glyph), no vertical metrics.  The manifest gets `"format": "glyphs"` so that the oracles apply the Glyphs rules where
they differ from the UFO ones (glyph order: glyphOrder entries, then file order)."""
import json
import os

ID = "m{:02d}"


def expressible(model):
    if any(a["map"] for a in model["axes"]):
        return False
    # conditions on an axis that does not vary are a designspace matter (a Glyphs axis rule on such an axis is not something
    # the bracket-layer oracle models)
    point = {a["tag"] for a in model["axes"] if a["min"] == a["max"]}
    if any(c["tag"] in point for r in (model.get("rules") or {}).get("rules", []) for cs in r["sets"] for c in cs):
        return False
    for g in model["glyphs"]:
        for layer in g["layers"].values():
            for c in layer["components"]:
                a, b, cc, d = c["xform"][:4]
                if b != 0 or cc != 0:
                    return False
            if layer.get("height") is not None:
                return False
    full = [m for m in model["masters"] if m["layer"] is None]
    if any(m["groups"] != full[0]["groups"] for m in full):
        return False
    # a Glyphs source has no axis ranges: they are the extent of the masters' locations
    for a in model["axes"]:
        locs = [m["design_loc"][a["tag"]] for m in full]
        if min(locs) != a["min"] or max(locs) != a["max"]:
            return False
    return True


def q(s):
    s = str(s)
    ok = s and all(ch.isalnum() or ch in "._" for ch in s) and not s[0].isdigit() and not s[0] == "."
    return s if ok else '"' + s.replace("\\", "\\\\").replace('"', '\\"') + '"'


def num(v):
    if isinstance(v, float) and v == int(v):
        v = int(v)
    return repr(v) if isinstance(v, float) else str(v)


NODE = {"line": "l", "off": "o", "curve": "c", "qcurve": "q"}


def shapes(layer):
    L = []
    for contour in layer["contours"]:
        L.append("{")
        L.append("closed = 1;")
        L.append("nodes = (")
        # Glyphs stores a closed path starting after the first on-curve point: the node list is cyclic and the last
        # node is the start point; keep the model's order rotated so that the first model point comes last
        pts = contour[1:] + contour[:1]
        L.append(",\n".join(f"({num(x)},{num(y)},{NODE[t]})" for x, y, t in pts))
        L.append(");")
        L.append("},")
    for c in layer["components"]:
        a, _b, _c, d, e, f = c["xform"]
        L.append("{")
        if e or f:
            L.append(f"pos = ({num(e)},{num(f)});")
        L.append(f"ref = {q(c['base'])};")
        if a != 1 or d != 1:
            L.append(f"scale = ({num(a)},{num(d)});")
        L.append("},")
    if L:
        L[-1] = "}"
    return L


def layer_text(layer, layer_id, extra=()):
    L = ["{"]
    if layer.get("anchors"):
        L.append("anchors = (")
        items = []
        for a in layer["anchors"]:
            items.append("{\nname = %s;\npos = (%s,%s);\n}" % (q(a["name"]), num(a["x"]), num(a["y"])))
        L.append(",\n".join(items))
        L.append(");")
    L += list(extra)
    L.append(f"layerId = {q(layer_id)};")
    sh = shapes(layer)
    if sh:
        L.append("shapes = (")
        L += sh
        L.append(");")
    L.append(f"width = {num(layer['width'])};")
    L.append("}")
    return "\n".join(L)


def bracket_plan(model):
    """Designspace-style rules expressed the Glyphs way: for every (rule, condition set, substitution A -> alt) the
    outlines of `alt` become bracket layers of A (one per master) that apply inside the box.  Bounds are integers in a
    Glyphs file.  Returns (per-glyph list of (box, alt name), the rules as the manifest states them for this source:
    one rule per emitted (A, box, alt), in emission order)."""
    axes = model["axes"]
    per_glyph, man_rules = {}, []
    for rule in (model.get("rules") or {}).get("rules", []):
        for conds in rule["sets"]:
            box = {}
            for c in conds:
                lo = None if c["min"] is None else int(round(c["min"]))
                hi = None if c["max"] is None else int(round(c["max"]))
                plo, phi = box.get(c["tag"], (None, None))
                if lo is not None:
                    plo = lo if plo is None else max(plo, lo)
                if hi is not None:
                    phi = hi if phi is None else min(phi, hi)
                box[c["tag"]] = (plo, phi)
            for a in axes:  # a bound on the axis limit is no bound (the compiler reads a missing bound as the limit)
                if a["tag"] in box:
                    plo, phi = box[a["tag"]]
                    box[a["tag"]] = (None if plo is not None and plo <= a["min"] else plo, None if phi is not None and phi >= a["max"] else phi)
            key = tuple((a["tag"],) + box.get(a["tag"], (None, None)) for a in axes)
            for base, alt in rule["subs"]:
                have = per_glyph.setdefault(base, [])
                if any(k == key for k, _a in have):
                    continue  # one alternate per (glyph, box): a second one would be merged into the same bracket glyph
                have.append((key, alt))
                man_rules.append({"sets": [[{"axis": a["name"], "tag": t, "min": lo, "max": hi} for a, (t, lo, hi) in zip(axes, key) if lo is not None or hi is not None]],
                                  "subs": [[base, alt]]})
    return per_glyph, man_rules


def render(model, outdir):
    os.makedirs(outdir, exist_ok=True)
    brackets, bracket_rules = bracket_plan(model) if model["axes"] else ({}, [])
    by_name = {g["name"]: g for g in model["glyphs"]}
    fam = model["family"]
    axes = model["axes"]
    full = [m for m in model["masters"] if m["layer"] is None]
    sparse = [m for m in model["masters"] if m["layer"] is not None]
    ids = {m["name"]: ID.format(i + 1) for i, m in enumerate(full)}
    L = ["{", '.appVersion = "3219";', ".formatVersion = 3;"]
    if axes:
        L.append("axes = (")
        L.append(",\n".join("{\nname = %s;\ntag = %s;\n}" % (q(a["name"]), q(a["tag"])) for a in axes))
        L.append(");")
    params = []
    if axes:
        params.append("{\nname = \"Variable Font Origin\";\nvalue = %s;\n}" % ids[full[0]["name"]])
    if brackets and (model["rules"] or {}).get("processing") == "last":
        params.append("{\nname = \"Feature for Feature Variations\";\nvalue = rclt;\n}")
    order = model["lib"].get("public.glyphOrder")
    if order:
        params.append("{\nname = glyphOrder;\nvalue = (\n%s\n);\n}" % ",\n".join(q(n) for n in order))
    if params:
        L.append("customParameters = (")
        L.append(",\n".join(params))
        L.append(");")
    L.append(f"familyName = {q(model['names'].get('familyName', fam))};")
    if model.get("fea_features"):
        L.append("features = (")
        L.append(",\n".join("{\ncode = %s;\ntag = %s;\n}" % (q(code), q(t)) for t, code in model["fea_features"]))
        L.append(");")
    # masters
    metric_keys = [("ascender", "ascender"), ("cap height", "capHeight"), ("x-height", "xHeight"), ("baseline", None), ("descender", "descender")]
    L.append("fontMaster = (")
    ms = []
    # sources with bracket layers (the rules families): the last master links its metrics to the first one. Only the C16 oracle reads
    # these sources (substitutions, substitute outlines, substitute advances), and the link must not reach the bracket layers
    link_master = full[-1]["name"] if brackets and len(full) >= 2 and not any(m.get("kerning") for m in full) else None
    for m in full:
        M = ["{"]
        if axes:
            M.append("axesValues = (")
            M.append(",\n".join(num(m["design_loc"][a["tag"]]) for a in axes))
            M.append(");")
        if axes:
            # user-space location of the master, spelled out (without it Glyphs derives weight / width locations from
            # instance classes); design == user for generated Glyphs sources
            M.append("customParameters = (")
            M.append("{")
            M.append('name = "Axis Location";')
            M.append("value = (")
            M.append(",\n".join("{\nAxis = %s;\nLocation = %s;\n}" % (q(a["name"]), num(m["design_loc"][a["tag"]])) for a in axes))
            M.append(");")
            M.append("}" + ("," if m["name"] == link_master else ""))
            if m["name"] == link_master:
                # this master takes the advances (and kerning) of its master layers from the first master; bracket and brace
                # layers keep their own
                M.append('{\nname = "Link Metrics With First Master";\nvalue = 1;\n}')
            M.append(");")
        M.append(f"id = {ids[m['name']]};")
        M.append("metricValues = (")
        vals = []
        for _t, key in metric_keys:
            v = m["info"].get(key) if key else None
            vals.append("{\npos = %s;\n}" % num(v) if v is not None else "{\n}")
        M.append(",\n".join(vals))
        M.append(");")
        M.append(f"name = {q(m['name'])};")
        M.append("}")
        ms.append("\n".join(M))
    L.append(",\n".join(ms))
    L.append(");")
    # glyphs
    groups = full[0]["groups"]
    side1 = {g: n[len("public.kern1."):] for n, mem in groups.items() if n.startswith("public.kern1.") for g in mem}
    side2 = {g: n[len("public.kern2."):] for n, mem in groups.items() if n.startswith("public.kern2.") for g in mem}
    cats = model["lib"].get("public.openTypeCategories", {})
    L.append("glyphs = (")
    gl = []
    for g in model["glyphs"]:
        G = ["{"]
        c = cats.get(g["name"])
        if c == "mark":
            G.append("category = Mark;")
        elif c in ("base", "ligature"):
            G.append("category = Letter;")
        if not g["export"]:
            G.append("export = 0;")
        G.append(f"glyphname = {q(g['name'])};")
        if g["name"] in side2:
            G.append(f"kernLeft = {q(side2[g['name']])};")
        if g["name"] in side1:
            G.append(f"kernRight = {q(side1[g['name']])};")
        G.append("layers = (")
        ls = []
        for m in full:
            layer = g["layers"].get(m["name"])
            if layer is not None:
                ls.append(layer_text(layer, ids[m["name"]]))
        for k, m in enumerate(sparse):
            layer = g["layers"].get(m["name"])
            if layer is not None:
                # a brace layer lists coordinates for the leading axes only and takes the rest from the master it is
                # associated with: hang it off the master sharing the longest tail of its location, spell out the rest
                loc = [m["design_loc"][a["tag"]] for a in axes]

                def tail(fm):
                    fl = [fm["design_loc"][a["tag"]] for a in axes]
                    t = 0
                    while t < len(axes) and fl[len(axes) - 1 - t] == loc[len(axes) - 1 - t]:
                        t += 1
                    return t
                assoc = max(full, key=tail)
                ncoords = max(1, len(axes) - tail(assoc))
                coords = ",\n".join(num(v) for v in loc[:ncoords])
                extra = [f"associatedMasterId = {ids[assoc['name']]};", "attr = {", "coordinates = (", coords, ");", "};"]
                ls.append(layer_text(layer, f"brace-{g['name']}-{k}", extra) .replace("layerId = ", "layerId = ", 1))
        for bi, (key, alt) in enumerate(brackets.get(g["name"], [])):
            rules_txt = ",\n".join("{\n" + (f"max = {hi};\n" if hi is not None else "") + (f"min = {lo};\n" if lo is not None else "") + "}" for _t, lo, hi in key)
            for m in full:
                layer = by_name[alt]["layers"].get(m["name"])
                if layer is None:
                    continue
                extra = [f"associatedMasterId = {ids[m['name']]};", "attr = {", "axisRules = (", rules_txt, ");", "};"]
                ls.append(layer_text(layer, f"bracket-{g['name']}-{bi}-{ids[m['name']]}", extra))
        G.append(",\n".join(ls))
        G.append(");")
        prod = (model["lib"].get("public.postscriptNames") or {}).get(g["name"])
        if prod:
            G.append(f"production = {q(prod)};")
        if c == "mark":
            G.append("subCategory = Nonspacing;")
        elif c == "ligature":
            G.append("subCategory = Ligature;")
        us = g.get("unicodes") or []
        if len(us) == 1:
            G.append(f"unicode = {us[0]};")
        elif us:
            G.append("unicode = (" + ",".join(str(u) for u in us) + ");")
        G.append("}")
        gl.append("\n".join(G))
    L.append(",\n".join(gl))
    L.append(");")
    # instances
    if axes and model["instances"]:
        L.append("instances = (")
        ins = []
        for inst in model["instances"]:
            I = ["{", "axesValues = (", ",\n".join(num(inst["user_loc"][a["tag"]]) for a in axes), ");", f"name = {q(inst['name'])};", "}"]
            ins.append("\n".join(I))
        L.append(",\n".join(ins))
        L.append(");")
    # kerning
    if any(m["kerning"] for m in full):
        def side(name, first):
            if name.startswith("public.kern1."):
                return "@MMK_L_" + name[len("public.kern1."):]
            if name.startswith("public.kern2."):
                return "@MMK_R_" + name[len("public.kern2."):]
            return name
        L.append("kerningLTR = {")
        for m in full:
            if not m["kerning"]:
                continue
            L.append(f"{ids[m['name']]} = {{")
            for a, row in m["kerning"].items():
                L.append(f"{q(side(a, True))} = {{")
                for b, v in row.items():
                    L.append(f"{q(side(b, False))} = {num(v)};")
                L.append("};")
            L.append("};")
        L.append("};")
    L.append("metrics = (")
    L.append(",\n".join("{\ntype = %s;\n}" % q(t) for t, _k in metric_keys))
    L.append(");")
    L.append(f"unitsPerEm = {model['upem']};")
    L.append("versionMajor = 1;")
    L.append("versionMinor = 0;")
    L.append("}")
    path = os.path.join(outdir, f"{fam}.glyphs")
    with open(path, "w", encoding="utf-8") as f:
        f.write("\n".join(L) + "\n")
    man = dict(model)
    man["format"] = "glyphs"
    if brackets:
        man["rules"] = {"processing": (model["rules"] or {}).get("processing", "first"), "rules": bracket_rules}
        man["bracket"] = True
        if link_master:
            man["link_metrics"] = {"master": link_master, "to": full[0]["name"]}
    with open(os.path.join(outdir, "manifest.json"), "w") as f:
        json.dump(man, f, indent=1)
    return path
