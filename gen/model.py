"""Abstract design model (the ground truth the oracles read) and its random builders.

A model is a JSON-serialisable dict (Appendix B of DESIGN.md).  `build(rng, **knobs)` draws one;
families (see families.py) are knob presets that switch on the dimensions a property depends on."""
import json
import math
import random

AXIS_POOL = [("wght", "Weight", 100, 400, 900), ("wdth", "Width", 50, 100, 200), ("opsz", "Optical Size", 8, 14, 144),
             ("slnt", "Slant", -15, 0, 0), ("XTRA", "Extra", 0, 50, 100)]
LATIN = list("ABCDEFGHIJKLMNOPQRSTUVWXYZabcdefghijklmnopqrstuvwxyz")
INFO_METRICS = [
    # fontinfo key, base value, per-master spread
    ("ascender", 800, 40), ("descender", -200, 30), ("capHeight", 700, 30), ("xHeight", 500, 30),
    ("openTypeOS2TypoAscender", 790, 30), ("openTypeOS2TypoDescender", -210, 30), ("openTypeOS2TypoLineGap", 50, 20),
    ("openTypeOS2WinAscent", 950, 40), ("openTypeOS2WinDescent", 250, 30),
    ("openTypeHheaAscender", 900, 40), ("openTypeHheaDescender", -240, 30), ("openTypeHheaLineGap", 30, 20),
    ("openTypeHheaCaretSlopeRise", 1000, 0), ("openTypeHheaCaretSlopeRun", 0, 0), ("openTypeHheaCaretOffset", 0, 20),
    ("postscriptUnderlinePosition", -100, 20), ("postscriptUnderlineThickness", 50, 15),
    ("openTypeOS2StrikeoutPosition", 300, 20), ("openTypeOS2StrikeoutSize", 50, 15),
    ("openTypeOS2SubscriptXSize", 650, 20), ("openTypeOS2SubscriptYSize", 600, 20),
    ("openTypeOS2SubscriptXOffset", 0, 10), ("openTypeOS2SubscriptYOffset", 75, 10),
    ("openTypeOS2SuperscriptXSize", 650, 20), ("openTypeOS2SuperscriptYSize", 600, 20),
    ("openTypeOS2SuperscriptXOffset", 0, 10), ("openTypeOS2SuperscriptYOffset", 350, 10),
]
VMETRICS = [("openTypeVheaVertTypoAscender", 500, 20), ("openTypeVheaVertTypoDescender", -500, 20),
            ("openTypeVheaVertTypoLineGap", 0, 10), ("openTypeVheaCaretSlopeRise", 0, 0),
            ("openTypeVheaCaretSlopeRun", 1, 0), ("openTypeVheaCaretOffset", 0, 10)]


def rnum(rng, lo, hi, half=False):
    """Integer in [lo,hi], biased to the ends; optionally a .5 value (rounding ties)."""
    r = rng.random()
    if r < 0.1:
        v = lo
    elif r < 0.2:
        v = hi
    else:
        v = rng.randint(lo, hi)
    if half and rng.random() < 0.25:
        v += 0.5
    return v


def make_axes(rng, n, mapped=0.5):
    axes = []
    for tag, name, lo, df, hi in rng.sample(AXIS_POOL, n):
        shape = rng.random()
        if tag == "slnt":
            dflt = hi
        elif shape < 0.2:
            dflt = lo
        elif shape < 0.3:
            dflt = hi
        else:
            dflt = df
        ax = {"tag": tag, "name": name, "min": lo, "default": dflt, "max": hi, "map": [], "hidden": False}
        if rng.random() < mapped:
            # user -> design, strictly increasing, passing through min/default/max
            users = sorted({lo, dflt, hi} | {rng.randint(lo, hi) for _ in range(rng.randint(0, 3))})
            d = rng.randint(0, 40)
            m = []
            for u in users:
                m.append([u, d])
                d += rng.randint(5, 200)
            ax["map"] = m
        axes.append(ax)
    return axes


def user_to_design(ax, u):
    m = ax["map"]
    if not m:
        return u
    if u <= m[0][0]:
        return m[0][1]
    for (u0, d0), (u1, d1) in zip(m, m[1:]):
        if u <= u1:
            return d0 + (d1 - d0) * (u - u0) / (u1 - u0) if u1 != u0 else d0
    return m[-1][1]


def design_bounds(ax):
    return tuple(user_to_design(ax, ax[k]) for k in ("min", "default", "max"))


def normalize_design(ax, d):
    lo, df, hi = design_bounds(ax)
    if d < df:
        return -(df - d) / (df - lo) if df != lo else 0.0
    if d > df:
        return (d - df) / (hi - df) if hi != df else 0.0
    return 0.0


def master_layout(rng, axes, kind):
    """Design-space locations of full masters; index 0 is the default."""
    b = [design_bounds(a) for a in axes]
    dflt = tuple(x[1] for x in b)
    locs = [dflt]

    def ext(i, which):  # which: 0 lo, 2 hi
        return b[i][which]
    sides = []
    for i in range(len(axes)):
        for w in (0, 2):
            if ext(i, w) != b[i][1]:
                sides.append((i, w))
    if kind == "static":
        return locs
    on_axis = []
    for i, w in sides:
        l = list(dflt)
        l[i] = ext(i, w)
        on_axis.append(tuple(l))
    if kind in ("onaxis", "mixed", "corners", "intermediate"):
        keep = on_axis if kind != "mixed" else [l for l in on_axis if rng.random() < 0.8] or on_axis[:1]
        locs += keep
    if kind in ("corners", "mixed") and len(axes) >= 2:
        # corners: every axis at an extreme
        import itertools
        choices = []
        for i in range(len(axes)):
            c = [b[i][w] for w in (0, 2) if b[i][w] != b[i][1]]
            choices.append(c or [b[i][1]])
        corners = [tuple(c) for c in itertools.product(*choices)]
        rng.shuffle(corners)
        locs += [c for c in corners if c not in locs][: rng.randint(1, 3)]
    if kind == "diagonal" and len(axes) >= 2:
        # masters along the main diagonal: every axis at the same fraction of its positive (or negative) half - equal
        # ratios on several axes, the tie case of the region-splitting rule
        w = [2 if b[i][2] != b[i][1] else 0 for i in range(len(axes))]
        for frac in (1.0, 0.5) + ((0.25,) if rng.random() < 0.4 else ()):
            l = tuple(b[i][1] + frac * (b[i][w[i]] - b[i][1]) for i in range(len(axes)))
            if l not in locs:
                locs.append(l)
        if rng.random() < 0.5:
            locs += [x for x in on_axis if x not in locs][: rng.randint(0, 2)]
    if kind == "offaxis" and len(axes) >= 2:
        # on-axis masters plus full masters strictly inside a quadrant, at fractions that are not dyadic: their weights
        # against the other masters (0.3, 0.7, ...) make the delta sums inexact in floating point
        locs += on_axis
        for _ in range(rng.randint(1, 2)):
            l = []
            for i in range(len(axes)):
                w = rng.choice([x for x in (0, 2) if b[i][x] != b[i][1]])
                l.append(round(b[i][1] + rng.choice([0.3, 0.7, 0.1, 0.9, 0.6]) * (b[i][w] - b[i][1]), 6))
            if tuple(l) not in locs:
                locs.append(tuple(l))
    if kind in ("intermediate", "mixed"):
        for _ in range(rng.randint(1, 2)):
            i, w = rng.choice(sides)
            l = list(dflt)
            lo, hi = sorted((b[i][1], ext(i, w)))
            if hi - lo >= 2:
                l[i] = rng.randint(lo + 1, hi - 1)
                if tuple(l) not in locs:
                    locs.append(tuple(l))
    return locs


def polygon(rng, cx, cy, r, n, quad):
    """A closed contour of n on-curve vertices around (cx,cy); with `quad`, off-curve points between some."""
    pts = []
    a0 = rng.random() * math.tau
    for i in range(n):
        a = a0 + math.tau * i / n
        rr = r * (0.6 + 0.4 * rng.random())
        pts.append([round(cx + rr * math.cos(a)), round(cy + rr * math.sin(a)), "line"])
    if not quad:
        return pts
    out = []
    for i, p in enumerate(pts):
        q = pts[(i + 1) % n]
        out.append(p)
        k = rng.random()
        if k < 0.5:
            continue
        mx, my = (p[0] + q[0]) / 2, (p[1] + q[1]) / 2
        nx, ny = -(q[1] - p[1]) * 0.3, (q[0] - p[0]) * 0.3
        if quad == "curve":
            out.append([round(p[0] + (q[0] - p[0]) / 3 + nx), round(p[1] + (q[1] - p[1]) / 3 + ny), "off"])
            out.append([round(p[0] + 2 * (q[0] - p[0]) / 3 + nx), round(p[1] + 2 * (q[1] - p[1]) / 3 + ny), "off"])
            out[-3] = out[-3]  # on-curve before stays
            pts[(i + 1) % n][2] = "curve"
        else:
            out.append([round(mx + nx), round(my + ny), "off"])
            if k > 0.85:
                out.append([round(mx + nx * 0.5 + (q[0] - p[0]) * 0.2), round(my + ny * 0.5 + (q[1] - p[1]) * 0.2), "off"])
            pts[(i + 1) % n][2] = "qcurve"
    # segment type lives on the on-curve point that ends the segment; the first point may have been retagged
    return out


def dedupe(contour):
    """Nudge points so no two consecutive points coincide (the C03 correspondence search needs that)."""
    n = len(contour)
    for i in range(n):
        p, q = contour[i], contour[(i + 1) % n]
        if p[0] == q[0] and p[1] == q[1]:
            q[0] += 3
            q[1] += 1
    return contour


def vary(rng, contours, amount, half):
    out = []
    for c in contours:
        dx, dy = rng.randint(-amount, amount), rng.randint(-amount, amount)
        nc = []
        for x, y, t in c:
            nx = x + dx + rng.randint(-amount, amount)
            ny = y + dy + rng.randint(-amount, amount)
            if half and rng.random() < 0.15:
                nx += 0.5
            nc.append([nx, ny, t])
        out.append(dedupe(nc))
    return out


def build(rng, *, family="base", n_axes=1, layout="onaxis", n_glyphs=8, curves="mixed", composites=0.25,
          nested=False, transforms="none", sparse_glyphs=0.0, sparse_layers=0, non_export=0, anchors=False,
          kerning=0, kern_groups=True, glyph_order="full", vertical=False, half=True, explicit_metrics=True,
          mixed_glyphs=0.0, notdef="absent", names=None, upem=1000, vary_amount=40, rules=None, instances=1,
          mapped=0.5, ext_glyph_names=None, unicodes="bmp", features=None, categories="lib"):
    axes = make_axes(rng, n_axes, mapped) if n_axes else []
    locs = master_layout(rng, axes, layout if axes else "static")
    masters = []
    for i, loc in enumerate(locs):
        name = "Regular" if i == 0 else f"M{i}"
        info = {}
        if explicit_metrics:
            for k, base, spread in INFO_METRICS + (VMETRICS if vertical else []):
                info[k] = base + (rng.randint(-spread, spread) if spread and i else 0)
            # keep the win metrics non-negative and the ratio metrics sane
        masters.append({"name": name, "ufo": f"{family}-{name}.ufo", "layer": None,
                        "design_loc": {a["tag"]: v for a, v in zip(axes, loc)}, "info": info, "kerning": {}, "groups": {}})
    # sparse (layer-only) masters live in the default UFO
    b = [design_bounds(a) for a in axes]
    for j in range(sparse_layers if axes else 0):
        i = rng.randrange(len(axes))
        cand = [w for w in (0, 2) if b[i][w] != b[i][1]]
        w = rng.choice(cand)
        lo, hi = sorted((b[i][1], b[i][w]))
        if hi - lo < 4:
            continue
        l = [x[1] for x in b]
        if len(axes) >= 2 and rng.random() < 0.5:
            # an intermediate layer that hangs off a non-default master: that master's position on the other axes.
            # Prefer an early axis and a master away from the default on a later one (a Glyphs brace layer then lists
            # only its leading coordinates and inherits the rest from the master it is associated with)
            off = [(k, m) for k in range(len(axes) - 1) for m in masters if m["layer"] is None
                   if b[k][0] != b[k][2] and any(list(m["design_loc"].values())[t] != b[t][1] for t in range(k + 1, len(axes)))]
            if off:
                i, m = rng.choice(off)
                cand = [w for w in (0, 2) if b[i][w] != b[i][1]]
                w = rng.choice(cand)
                lo, hi = sorted((b[i][1], b[i][w]))
                if hi - lo < 4:
                    continue
                l = list(m["design_loc"].values())
        l[i] = rng.randint(int(lo) + 1, int(hi) - 1)
        if any(tuple(m["design_loc"].values()) == tuple(l) for m in masters):
            continue
        masters.append({"name": f"S{j}", "ufo": masters[0]["ufo"], "layer": f"{{{l[i]}}}.{j}",
                        "design_loc": {a["tag"]: v for a, v in zip(axes, l)}, "info": {}, "kerning": {}, "groups": {}})
    full = [m for m in masters if m["layer"] is None]
    sparse = [m for m in masters if m["layer"] is not None]

    pool = list(ext_glyph_names or LATIN)
    rng.shuffle(pool)
    gnames = pool[:n_glyphs]
    glyphs = []
    cp = 0x41
    simple_names = []
    for gi, name in enumerate(gnames):
        is_comp = gi >= 2 and rng.random() < composites and simple_names
        g = {"name": name, "export": True, "unicodes": [], "category": None, "layers": {}}
        if unicodes != "none":
            if len(name) == 1 and name.isalpha() and name.isascii():
                g["unicodes"] = [ord(name)]
            elif rng.random() < 0.8:
                g["unicodes"] = [0xE000 + gi]
            if unicodes == "multi" and rng.random() < 0.3:
                g["unicodes"].append(0x1F600 + gi if rng.random() < 0.5 else 0x2460 + gi)
        base_w = rnum(rng, 200, 900)
        base_h = rnum(rng, 800, 1200)
        # which masters carry this glyph
        carriers = list(full)
        if sparse_glyphs and len(full) > 2 and rng.random() < sparse_glyphs:
            keep = [m for m in full[1:] if rng.random() < 0.5]
            carriers = [full[0]] + keep
        carriers += [m for m in sparse if rng.random() < 0.5]
        if is_comp:
            ncomp = rng.randint(1, 3)
            cands = simple_names if not nested else [x["name"] for x in glyphs]
            bases = [rng.choice(cands) for _ in range(ncomp)]
            xf = []
            for _ in bases:
                if transforms == "none":
                    m2 = [1, 0, 0, 1]
                elif transforms == "overflow":
                    s = rng.choice([1.5, 1.9, 2.0, 2.5, -2.2, 1.25])
                    m2 = rng.choice([[s, 0, 0, s], [s, 0, 0, 1], [1, 0, 0, s]])
                    if rng.random() < 0.4:
                        # the entries beyond the 2.14 range sit off the diagonal: a turned and enlarged or a sheared component
                        m2 = rng.choice([[0, 2.5, -2.5, 0], [1.5, 2.5981, -2.5981, 1.5], [1, 2.4, 0, 1], [1, 0, -2.3, 1], [0, -3, 3, 0], [0, 1.9, -1.9, 0]])
                elif transforms == "scale":
                    s = rng.choice([0.5, 0.75, 1.25, 1.5, -1])
                    m2 = rng.choice([[s, 0, 0, s], [s, 0, 0, 1], [-1, 0, 0, 1], [1, 0, 0, -1]])
                else:
                    a = math.radians(rng.choice([30, 45, 90, 180, -60]))
                    s = rng.choice([0.5, 1, 1.5])
                    m2 = [round(s * math.cos(a), 4), round(s * math.sin(a), 4), round(-s * math.sin(a), 4), round(s * math.cos(a), 4)]
                xf.append(m2)
            base_off = [(rnum(rng, -200, 400), rnum(rng, -200, 400)) for _ in bases]
            mixed = rng.random() < mixed_glyphs
            extra = [dedupe(polygon(rng, rnum(rng, 100, 500), rnum(rng, 0, 600), rnum(rng, 40, 150), rng.randint(3, 5), None))] if mixed else []
            for mi, m in enumerate(carriers):
                comps = []
                for bname, m2, (ox, oy) in zip(bases, xf, base_off):
                    dx = rng.randint(-vary_amount, vary_amount) if mi else 0
                    dy = rng.randint(-vary_amount, vary_amount) if mi else 0
                    e, f = ox + dx, oy + dy
                    if half and mi and rng.random() < 0.2:
                        e += 0.5
                    comps.append({"base": bname, "xform": m2 + [e, f]})
                g["layers"][m["name"]] = {"width": base_w + (rng.randint(-60, 60) if mi else 0),
                                          "height": base_h + (rng.randint(-60, 60) if mi else 0) if vertical else None,
                                          "contours": vary(rng, extra, vary_amount, half) if mi else [[list(p) for p in c] for c in extra],
                                          "components": comps, "anchors": []}
        else:
            nc = rng.randint(0, 2) if rng.random() < 0.1 else rng.randint(1, 3)
            contours = []
            for _ in range(nc):
                q = {"lines": None, "quad": "qcurve", "cubic": "curve"}.get(curves)
                if curves == "mixed":
                    q = rng.choice([None, "qcurve", "qcurve"])
                contours.append(dedupe(polygon(rng, rnum(rng, 100, 500), rnum(rng, 0, 600), rnum(rng, 60, 250), rng.randint(3, 7), q)))
            for mi, m in enumerate(carriers):
                g["layers"][m["name"]] = {"width": base_w + (rng.randint(-80, 80) if mi else 0),
                                          "height": base_h + (rng.randint(-80, 80) if mi else 0) if vertical else None,
                                          "contours": vary(rng, contours, vary_amount, half) if mi else [[list(p) for p in c] for c in contours],
                                          "components": [], "anchors": []}
            simple_names.append(name)
        glyphs.append(g)

    model = {"family": family, "upem": upem, "axes": axes, "masters": masters, "glyphs": glyphs,
             "lib": {}, "rules": rules, "instances": [], "labels": {}, "features_fea": features or "",
             "names": names or {"familyName": f"Verif {family}", "styleName": "Regular"},
             "expect": {"compiles": True}}
    # non-export glyphs (used as components by others)
    if non_export:
        cand = [g for g in glyphs if g["name"] in simple_names]
        rng.shuffle(cand)
        for g in cand[:non_export]:
            g["export"] = False
        model["lib"]["public.skipExportGlyphs"] = [g["name"] for g in glyphs if not g["export"]]
    # glyph order
    names_all = [g["name"] for g in glyphs]
    if glyph_order == "full":
        order = list(names_all)
        rng.shuffle(order)
        model["lib"]["public.glyphOrder"] = order
    elif glyph_order == "partial":
        order = [n for n in names_all if rng.random() < 0.5]
        rng.shuffle(order)
        order.insert(rng.randint(0, len(order)), "doesNotExist")
        model["lib"]["public.glyphOrder"] = order
    # glyph_order == "none": no lib key at all
    if notdef != "absent":
        nd = {"name": ".notdef", "export": True, "unicodes": [], "category": None, "layers": {}}
        c = [[[50, 0, "line"], [450, 0, "line"], [450, 700, "line"], [50, 700, "line"]]]
        for m in full:
            nd["layers"][m["name"]] = {"width": 500, "height": 1000 if vertical else None, "contours": [[list(p) for p in cc] for cc in c], "components": [], "anchors": []}
        glyphs.append(nd)
        if "public.glyphOrder" in model["lib"]:
            o = model["lib"]["public.glyphOrder"]
            pos = {"first": 0, "middle": len(o) // 2, "last": len(o)}.get(notdef, 0)
            o.insert(pos, ".notdef")
    # instances
    for k in range(instances if axes else 0):
        uloc = {}
        for a in axes:
            uloc[a["tag"]] = rng.choice([a["min"], a["default"], a["max"], rng.randint(int(a["min"]), int(a["max"]))])
        model["instances"].append({"name": f"Inst{k}", "psname": None, "user_loc": uloc})
    return model


def master_norm_loc(model, m):
    return {a["tag"]: normalize_design(a, m["design_loc"][a["tag"]]) for a in model["axes"]}


def add_kerning(model, rng, pairs=20, groups=True, divergent=0.0, partial=0.0, zero=0.1, exceptions=0.3, big=False):
    """UFO kerning on the full masters: glyph and group pairs, exceptions, per-master divergent groups,
    pairs present in only some masters.  Only exported glyphs take part."""
    full = [m for m in model["masters"] if m["layer"] is None]
    names = [g["name"] for g in model["glyphs"] if g["export"] and g["name"] != ".notdef"]
    if len(names) < 2:
        return model
    rng.shuffle(names)
    # base grouping: a few side-1 and side-2 groups, each glyph in at most one group per side
    def grouping():
        out = {}
        if not groups:
            return out
        for side in ("public.kern1.", "public.kern2."):
            pool = list(names)
            rng.shuffle(pool)
            ngroups = rng.randint(1, max(1, len(pool) // 3))
            for gi in range(ngroups):
                k = rng.randint(1, 3)
                members, pool = pool[:k], pool[k:]
                if members:
                    nm = f"g{gi}"
                    # names that look like the compiler's own names for split classes (<group>_<n>) next to the group they mimic
                    if gi and rng.random() < 0.4:
                        cand = f"g{rng.randrange(gi)}_{rng.randint(1, 2)}"
                        if side + cand not in out:
                            nm = cand
                    out[side + nm] = sorted(members)
        return out
    base_groups = grouping()
    firsts = names + [g for g in base_groups if g.startswith("public.kern1.")]
    seconds = names + [g for g in base_groups if g.startswith("public.kern2.")]
    base = {}
    n = 0
    while n < pairs:
        a, b = rng.choice(firsts), rng.choice(seconds)
        if b in base.get(a, {}):
            if len(firsts) * len(seconds) <= pairs:
                break
            continue
        v = 0 if rng.random() < zero else rng.choice([-1, 1]) * rng.randint(1, 120)
        if v and rng.random() < 0.15:
            v += 0.5  # rounding tie
        base.setdefault(a, {})[b] = v
        n += 1
    # exceptions: glyph-vs-group pairs that override a group pair
    if groups and exceptions:
        for a in list(base):
            for b in list(base[a]):
                if rng.random() < exceptions:
                    ga = base_groups.get(a)
                    gb = base_groups.get(b)
                    if ga and rng.random() < 0.5:
                        base.setdefault(rng.choice(ga), {})[b] = rng.randint(-90, 90)
                    elif gb:
                        base.setdefault(a, {})[rng.choice(gb)] = rng.randint(-90, 90)
    for mi, m in enumerate(full):
        gr = {k: list(v) for k, v in base_groups.items()}
        if mi and divergent and rng.random() < divergent and gr:
            # move / drop / add members in this master only
            for _ in range(rng.randint(1, 3)):
                if not gr:
                    break
                k = rng.choice(list(gr))
                side = k[:13]
                op = rng.random()
                if op < 0.4 and len(gr[k]) > 1:
                    gr[k].remove(rng.choice(gr[k]))
                elif op < 0.8:
                    used = {x for kk, vv in gr.items() if kk.startswith(side) for x in vv}
                    free = [x for x in names if x not in used]
                    if free:
                        gr[k].append(rng.choice(free))
                else:
                    gr.pop(k)
        kern = {}
        for a, row in base.items():
            for b, v in row.items():
                if mi and partial and rng.random() < partial:
                    continue
                if (a.startswith("public.") and a not in gr) or (b.startswith("public.") and b not in gr):
                    continue
                vv = v if not mi else v + rng.randint(-40, 40) + (0.5 if rng.random() < 0.1 else 0)
                if mi and rng.random() < zero:
                    vv = 0
                kern.setdefault(a, {})[b] = vv
        if mi and partial and rng.random() < partial * 0.3:
            kern = {}
        m["groups"] = {k: v for k, v in gr.items() if v}
        m["kerning"] = kern
    # a consistent group named like a piece of a divergent one: the compiler names the classes it splits a divergent group
    # into <group>_<n>; a source group that already carries such a name (and is kerned) must keep its own members and values
    r3 = random.Random(rng.random())
    if groups and divergent and r3.random() < 0.8:
        allg = sorted({k for m in full for k in m["groups"]})
        div = [k for k in allg if len({tuple(sorted(m["groups"].get(k, []))) for m in full}) > 1]
        r3.shuffle(div)
        for x in div[:2]:
            side = x[:13]
            used = {g for m in full for k, v in m["groups"].items() if k.startswith(side) for g in v}
            free = [g for g in names if g not in used]
            mimic = f"{x}_{1 if r3.random() < 0.8 else 2}"
            if any(mimic in m["groups"] for m in full):
                continue
            if not free:
                # release a glyph from a group that can spare it (>= 2 members wherever it is listed), other than x itself
                for g in r3.sample(names, len(names)):
                    holders = [(m, k) for m in full for k, v in m["groups"].items() if k.startswith(side) and g in v]
                    if holders and all(k != x and len(m["groups"][k]) >= 2 for m, k in holders):
                        for m, k in holders:
                            m["groups"][k].remove(g)
                        free = [g]
                        break
            if not free:
                continue
            members = sorted(r3.sample(free, min(len(free), r3.randint(1, 2))))
            others = [g for g in names if g not in members]
            for mi, m in enumerate(full):
                m["groups"][mimic] = list(members)
                for o in others[:3]:
                    v = r3.choice([-1, 1]) * r3.randint(5, 90)
                    model.setdefault("kern_mimic_groups", []).append(mimic) if mi == 0 and o == others[0] else None
                    if side == "public.kern1.":
                        m["kerning"].setdefault(mimic, {})[o] = v
                    else:
                        m["kerning"].setdefault(o, {})[mimic] = v
    # exceptions that restate what they override: (a, @G2) with the value of (@G1, @G2) in every master, next to a
    # (@G1, b) exception with b in @G2 - the glyph-group pair still outranks the group-glyph one for (a, b)
    r2 = random.Random(rng.random())
    if groups and exceptions:
        cc = [(a, b) for a in base for b in base[a] if a.startswith("public.kern1.") and b.startswith("public.kern2.")]
        r2.shuffle(cc)
        for g1, g2 in cc[:2]:
            if not base_groups.get(g1) or not base_groups.get(g2):
                continue
            a, b = r2.choice(base_groups[g1]), r2.choice(base_groups[g2])
            if any(b in m["kerning"].get(a, {}) for m in full):
                continue
            other = r2.choice([-1, 1]) * r2.randint(5, 90)
            for mi, m in enumerate(full):
                k = m["kerning"]
                if g2 in k.get(g1, {}) and g1 in m["groups"] and g2 in m["groups"]:
                    k.setdefault(a, {})[g2] = k[g1][g2]
                    k.setdefault(g1, {})[b] = other + (r2.randint(-20, 20) if mi else 0)
    return model


def hostile_axes(model, rng):
    """Rewrite the axis maps with hostile shapes (C08); master locations are carried through the new maps."""
    old = {a["tag"]: dict(a) for a in model["axes"]}
    for a in model["axes"]:
        lo, hi = a["min"], a["max"]
        shape = rng.random()
        if shape < 0.2:
            a["default"] = lo
        elif shape < 0.35:
            a["default"] = hi
        elif shape < 0.6:
            a["default"] = round(lo + (hi - lo) * rng.random(), 1)
        kind = rng.random()
        if kind < 0.15:
            a["map"] = []
            continue
        n = rng.randint(0, 6)
        users = sorted({lo, a["default"], hi} | {round(lo + (hi - lo) * rng.random(), rng.choice([0, 0, 1, 2])) for _ in range(n)})
        if kind < 0.4 and len(users) >= 4:
            # mostly on the identity line, one or two interior stops bent (stops that look redundant but are breakpoints)
            m = [[u, u] for u in users]
            inner = [i for i, u in enumerate(users) if u not in (lo, hi, a["default"])]
            for i in rng.sample(inner, min(len(inner), rng.randint(1, 2))):
                left, right = users[i - 1], users[i + 1]
                m[i][1] = round(users[i] + (rng.choice([left, right]) - users[i]) * rng.uniform(0.2, 0.6), 1)
            if any(m[k][1] <= m[k - 1][1] for k in range(1, len(m))):
                m = [[u, u] for u in users]  # two bends crossed: a decreasing map is not a valid source
            a["map"] = m
            continue
        d = round(rng.uniform(-50, 200), rng.choice([0, 1]))
        m = []
        for i, u in enumerate(users):
            if i:
                du = u - users[i - 1]
                slope = rng.choice([0.05, 0.2, 0.5, 1, 1, 2, 5, 20])
                if kind > 0.9 and rng.random() < 0.3:
                    slope = 0  # flat segment
                d = max(d, round(d + du * slope * rng.uniform(0.8, 1.2), rng.choice([0, 1, 3])))
            m.append([u, d])
        if kind > 0.8 and all(u == dd for u, dd in m):
            pass
        a["map"] = m
    # carry master / instance locations: they were placed on the old design bounds
    for mm in model["masters"]:
        for a in model["axes"]:
            o = old[a["tag"]]
            d = mm["design_loc"][a["tag"]]
            olo, odf, ohi = design_bounds(o)
            nlo, ndf, nhi = design_bounds(a)
            if d == odf:
                nd = ndf
            elif d == olo:
                nd = nlo
            elif d == ohi:
                nd = nhi
            else:
                t = normalize_design(o, d)
                nd = ndf + t * (nhi - ndf) if t > 0 else ndf + t * (ndf - nlo)
            mm["design_loc"][a["tag"]] = nd
    for inst in model["instances"]:
        for a in model["axes"]:
            inst["user_loc"][a["tag"]] = min(max(inst["user_loc"][a["tag"]], a["min"]), a["max"])
    # a master cannot sit where the new map collapses it onto the default
    seen = set()
    keep = []
    for mm in model["masters"]:
        key = tuple(sorted(mm["design_loc"].items()))
        if key in seen:
            for g in model["glyphs"]:
                g["layers"].pop(mm["name"], None)
            continue
        seen.add(key)
        keep.append(mm)
    model["masters"] = keep
    if rng.random() < 0.3:
        add_point_axis(model, rng)
    return model


def add_point_axis(model, rng, mapped=0.5):
    """An axis on which nothing varies (every master at the same place), often listed before the other axes: it stays out of
    fvar, so everything that is indexed by axis (regions, avar maps, FeatureVariations conditions) must skip it."""
    used = {a["tag"] for a in model["axes"]}
    tag, name, lo, df, hi = rng.choice([x for x in AXIS_POOL if x[0] not in used])
    v = rng.choice([lo, df, hi])
    d = v if rng.random() >= mapped else round(v * 1.5 + 7, 1)
    ax = {"tag": tag, "name": name, "min": v, "default": v, "max": v, "map": [] if d == v else [[v, d]], "hidden": False}
    model["axes"].insert(rng.randrange(len(model["axes"]) + 1) if rng.random() < 0.4 else 0, ax)
    for mm in model["masters"]:
        mm["design_loc"] = {a["tag"]: (d if a["tag"] == tag else mm["design_loc"][a["tag"]]) for a in model["axes"]}
    for inst in model["instances"]:
        inst["user_loc"] = {a["tag"]: (v if a["tag"] == tag else inst["user_loc"][a["tag"]]) for a in model["axes"]}
    return model


def fnum(v):
    return str(int(v)) if float(v) == int(v) else repr(float(v))


def tie_values(model, rng):
    """Rounding ties in the deltas: every on-axis master on multiples of 10, the off-axis masters on n + 0.5. The delta of
    an off-axis master is x - sum(weight * delta) with weights like 0.3 / 0.7: mathematically n + 0.5, in floating point an ulp
    to either side depending on the order the terms are accumulated in - the rounded delta must still be one value."""
    full = [m for m in model["masters"] if m["layer"] is None]
    b = {a["tag"]: design_bounds(a) for a in model["axes"]}

    def off_axis(m):
        return sum(1 for t, v in m["design_loc"].items() if v != b[t][1]) >= 2
    for g in model["glyphs"]:
        for m in full:
            layer = g["layers"].get(m["name"])
            if layer is None:
                continue
            if off_axis(m):
                snap = lambda v: math.floor(v) + 0.5  # noqa: E731
            else:
                snap = lambda v: 10 * round(v / 10)  # noqa: E731
            layer["width"] = max(0, snap(layer["width"]))
            for c in layer["contours"]:
                for pt in c:
                    pt[0], pt[1] = snap(pt[0]), snap(pt[1])
            layer["contours"] = [dedupe(c) for c in layer["contours"]]
            for comp in layer["components"]:
                comp["xform"][4], comp["xform"][5] = snap(comp["xform"][4]), snap(comp["xform"][5])
    return model


def reuse_default_source(model, rng):
    """The default master's UFO listed a second time, at another location on the first axis (a design that does not change
    along part of an axis): the same glif files then belong to two sources, one of them not the default."""
    full = [m for m in model["masters"] if m["layer"] is None]
    if not model["axes"] or not full:
        return model
    a = model["axes"][0]
    lo, df, hi = design_bounds(a)
    taken = {m["design_loc"][a["tag"]] for m in model["masters"] if all(m["design_loc"][t] == full[0]["design_loc"][t] for t in m["design_loc"] if t != a["tag"])}
    cands = [v for v in (round((df + hi) / 2), round((df + lo) / 2)) if v not in taken and lo <= v <= hi]
    if not cands:
        return model
    loc = dict(full[0]["design_loc"])
    loc[a["tag"]] = cands[0]
    dup = dict(full[0], name="Dup", design_loc=loc, reuses_default_ufo=True, kerning=dict(full[0]["kerning"]), groups=dict(full[0]["groups"]))
    model["masters"].append(dup)
    for g in model["glyphs"]:
        if full[0]["name"] in g["layers"]:
            g["layers"]["Dup"] = json.loads(json.dumps(g["layers"][full[0]["name"]]))
        # the other masters disagree about codepoints (none, or one the default does not have): the default master decides
        for m in full[1:]:
            if m["name"] in g["layers"] and g.get("unicodes"):
                g["layers"][m["name"]]["_unicodes"] = [] if rng.random() < 0.5 else [0xE000 + rng.randrange(0x100)]
    return model


def production_names(model, rng, share=0.5):
    names = {}
    for g in model["glyphs"]:
        if g["export"] and g["name"] != ".notdef" and rng.random() < share:
            names[g["name"]] = "prod." + g["name"] + str(rng.randint(0, 9))
    # name clashes: several glyphs asking for the same production name (the later ones must be told apart with a numeric
    # suffix), next to a glyph - earlier in the order - that already owns such a suffixed name
    exported = [g["name"] for g in model["glyphs"] if g["export"] and g["name"] != ".notdef"]
    if len(exported) >= 4 and rng.random() < 0.6:
        pick = rng.sample(exported, rng.randint(3, min(5, len(exported))))
        owner, dups = pick[0], pick[1:]
        for d in dups:
            names[d] = "clash"
        names[owner] = rng.choice(["clash.1", "clash.2", "clash.1"])
        order = model["lib"].get("public.glyphOrder")
        if order is not None:
            order[:] = [owner] + [n for n in order if n != owner]
    if names:
        model["lib"]["public.postscriptNames"] = names
    return model


def summary_special(model, rng):
    """C17: trailing equal-advance runs, zero advances, empty glyphs, negative side bearings, deep mirrored nesting."""
    glyphs = [g for g in model["glyphs"] if g["name"] != ".notdef"]
    order = model["lib"].get("public.glyphOrder") or [g["name"] for g in glyphs]
    mode = rng.randrange(4)
    by = {g["name"]: g for g in glyphs}
    tail = [n for n in order if n in by][-rng.randint(2, max(2, len(order) // 2)):]
    if mode == 0:
        tail = [n for n in order if n in by]  # all advances equal
    w = rng.choice([0, 500, 600, 1000])
    for n in tail:
        for layer in by[n]["layers"].values():
            layer["width"] = w
    # codepoints on the edges of Unicode blocks, each alone in its block (OS/2 range bits come from a block lookup)
    edges = [0x0080, 0x00FF, 0x0100, 0x017F, 0x0180, 0x024F, 0x0530, 0x058F, 0x0590, 0x05FF, 0x0E00, 0x0E7F, 0x20A0, 0x20CF, 0x2100, 0x214F,
             0x2190, 0x21FF, 0x2200, 0x22FF, 0x25A0, 0x25FF, 0x3000, 0x303F, 0x3040, 0x309F, 0xFB00, 0xFB4F, 0x0370, 0x03FF, 0x0400, 0x04FF]
    r2 = random.Random(rng.random())
    blocks_used = set()
    for g in r2.sample([g for g in glyphs if g["export"]], min(3, len([g for g in glyphs if g["export"]]))):
        cp = r2.choice(edges)
        blk = edges.index(cp) // 2
        if blk in blocks_used or any(cp in x.get("unicodes", []) for x in glyphs):
            continue
        blocks_used.add(blk)
        g["unicodes"] = list(g.get("unicodes") or []) + [cp]
    for g in rng.sample(glyphs, min(2, len(glyphs))):
        empty = rng.random() < 0.5
        used = any(c["base"] == g["name"] for o in glyphs for l in o["layers"].values() for c in l["components"])
        for layer in g["layers"].values():
            if layer["components"]:
                continue
            if empty and not used:
                layer["contours"] = []  # empty glyph
            else:
                for c in layer["contours"]:
                    for p in c:
                        p[0] -= 400  # negative left side bearing
    return model


MARK_NAMES = ["acutecomb", "gravecomb", "dotbelowcomb", "cedillacomb", "ringcomb", "tildecomb", "macroncomb", "ogonekcomb"]
LIG_NAMES = ["f_i", "f_f_l", "f_l", "T_h", "c_t"]
ANCHOR_GROUPS = ["top", "bottom", "ogonek", "center", "topright"]


def add_anchors(model, rng, n_groups=2, n_marks=3, n_ligs=1, mkmk=0.5, multi_mark=0.0, uncategorised=0.15, vary_amount=30, half=True, sparse_ok=True, propagate=0, second_only=0.0):
    """Mark attachment data: base/mark/ligature anchors on every layer of the chosen glyphs (positions vary per
    master), public.openTypeCategories for every glyph that takes part.  Roles: the glyphs named like combining marks
    are marks, those named like ligatures are ligatures, single letters are bases."""
    groups = rng.sample(ANCHOR_GROUPS, min(n_groups, len(ANCHOR_GROUPS)))
    glyphs = [g for g in model["glyphs"] if g["export"] and g["name"] != ".notdef"]
    marks = [g for g in glyphs if g["name"] in MARK_NAMES][:n_marks]
    ligs = [g for g in glyphs if g["name"] in LIG_NAMES][:n_ligs]
    bases = [g for g in glyphs if g not in marks and g not in ligs and g["name"] not in MARK_NAMES and g["name"] not in LIG_NAMES]
    cats = {}
    plan = {}  # glyph name -> [(anchor name, x, y)]
    for g in bases:
        if rng.random() < uncategorised:
            continue  # no category, no anchors
        cats[g["name"]] = "base"
        names = [grp for grp in groups if rng.random() < 0.8] or [groups[0]]
        plan[g["name"]] = [(n, rnum(rng, 50, 600), rnum(rng, -200, 800)) for n in names]
    for i, g in enumerate(marks):
        cats[g["name"]] = "mark"
        own = [groups[i % len(groups)]]
        if rng.random() < multi_mark and len(groups) > 1:
            own.append(rng.choice([x for x in groups if x not in own]))
        a = [("_" + n, rnum(rng, 0, 300), rnum(rng, -100, 700)) for n in own]
        if rng.random() < mkmk:
            a.append((own[0], rnum(rng, 0, 300), rnum(rng, 300, 900)))  # marks stack: mkmk
        plan[g["name"]] = a
    if marks and rng.random() < second_only:
        # Vietnamese-style stacking: a group that marks only ever list as their *second* underscore anchor
        # (`_top` then `_top_viet`), with its base anchor on other marks (mkmk) and on some bases
        extra = groups[0] + "_viet"
        takers = [g for g in marks if rng.random() < 0.7] or [marks[0]]
        for g in takers:
            plan[g["name"]].insert(1, ("_" + extra, rnum(rng, 0, 300), rnum(rng, -100, 700)))
        for g in rng.sample(marks, max(1, len(marks) // 2)):
            plan[g["name"]].append((extra, rnum(rng, 0, 300), rnum(rng, 300, 900)))
        for g in bases:
            if g["name"] in plan and rng.random() < 0.4:
                plan[g["name"]].append((extra, rnum(rng, 50, 600), rnum(rng, -200, 800)))
    for g in ligs:
        cats[g["name"]] = "ligature"
        ncomp = g["name"].count("_") + 1
        a = []
        for grp in groups:
            if rng.random() < 0.2:
                continue
            for c in range(1, ncomp + 1):
                if rng.random() < 0.2 and c > 1:
                    continue  # this component has no anchor of this group
                a.append((f"{grp}_{c}", rnum(rng, 50, 300) + 300 * (c - 1), rnum(rng, -200, 800)))
        plan[g["name"]] = a
    # every group that a mark uses must exist on some base so that mark glyph takes part
    for g in marks:
        for (n, _x, _y) in plan[g["name"]]:
            if n.startswith("_") and bases:
                grp = n[1:]
                if not any(a[0] == grp for b in bases for a in plan.get(b["name"], [])):
                    b = next((b for b in bases if b["name"] in plan), None)
                    if b is not None:
                        plan[b["name"]].append((grp, rnum(rng, 50, 600), rnum(rng, -200, 800)))
    default = model["masters"][0]["name"]
    for g in glyphs:
        a = plan.get(g["name"])
        if not a:
            continue
        # sub-unit variation: fractional coordinates that move by less than half a unit between masters yet round to
        # different integers (100.4 / 100.6) - each master is rounded on its own before deltas are taken
        subunit = {n: (rng.choice([0.4, 0.25, 0.45]), rng.choice([0.4, 0.3, 0.45])) for (n, _x, _y) in a if half and rng.random() < 0.2}
        for mname, layer in g["layers"].items():
            out = []
            for (n, x, y) in a:
                if n in subunit:
                    fx, fy = subunit[n]
                    if mname == default:
                        out.append({"name": n, "x": math.floor(x) + fx, "y": math.floor(y) + fy})
                    else:
                        out.append({"name": n, "x": math.floor(x) + fx + rng.choice([0.2, 0.3, 0.0, -0.1]), "y": math.floor(y) + fy + rng.choice([0.25, 0.15, 0.0])})
                elif mname == default:
                    out.append({"name": n, "x": x, "y": y})
                else:
                    dx, dy = rng.randint(-vary_amount, vary_amount), rng.randint(-vary_amount, vary_amount)
                    if half and rng.random() < 0.2:
                        dx += 0.5
                    out.append({"name": n, "x": x + dx, "y": y + dy})
            layer["anchors"] = out
    # anchor propagation: composites of exactly one base glyph (identity 2x2, per-master offset) without anchors of their own
    # inherit the base's anchors shifted by the offset - the one case the propagation rules leave no choice in
    if propagate:
        first_layers = set(model["masters"][0:1] and [m["name"] for m in model["masters"] if m["layer"] is None])
        donors = [g for g in bases if g["name"] in plan and cats.get(g["name"]) == "base" and set(g["layers"]) >= first_layers]
        takers = [g for g in bases if g["name"] not in plan][:propagate]
        for g in takers:
            if not donors:
                break
            d = rng.choice(donors)
            off = (rnum(rng, -100, 300), rnum(rng, -100, 200))
            for mname in list(g["layers"]):
                if mname not in d["layers"]:
                    del g["layers"][mname]
                    continue
                layer = g["layers"][mname]
                dx, dy = (rng.randint(-20, 20), rng.randint(-20, 20)) if mname != default else (0, 0)
                layer["contours"] = []
                layer["components"] = [{"base": d["name"], "xform": [1, 0, 0, 1, off[0] + dx, off[1] + dy]}]
                layer["anchors"] = []
            cats[g["name"]] = "base"
        model["lib"]["com.github.googlei18n.ufo2ft.filters"] = [{"name": "propagateAnchors", "pre": True}]
        model["propagate_anchors"] = True
    model["lib"]["public.openTypeCategories"] = cats
    return model


# ------------------------------------------------------------------------------------------ naming (C18)
RIBBI = {"regular": "Regular", "italic": "Italic", "bold": "Bold", "bold italic": "Bold Italic"}


def expected_names(N):
    """ids 1-6, 16, 17 from the UFO naming fields by ufo2ft's documented fallback rules (fontInfoData.py):
    styleMapStyleName falls back to the style name if that is one of regular/italic/bold/bold italic, else to
    'regular' with the style name appended to the style-map family name; preferred (typographic) names fall back to
    familyName/styleName and are dropped when equal to ids 1/2; version 'Version M.mmm'; PostScript name
    'Family-Style' without spaces and ()[]{}<>/% ; unique id 'M.mmm;VEND;psname'."""
    fam1 = N.get("styleMapFamilyName")
    sub2 = RIBBI.get(N["styleMapStyleName"]) if "styleMapStyleName" in N else None
    t16 = N.get("openTypeNamePreferredFamilyName", N.get("familyName"))
    t17 = N.get("openTypeNamePreferredSubfamilyName", N.get("styleName"))
    suffix = None
    if sub2 is None:
        fb = t17 if t17 is not None else "Regular"
        if fb.lower() in RIBBI:
            sub2 = fb
        else:
            sub2, suffix = "Regular", (fb or None)
    if fam1 is None:
        fam1 = t16 if t16 is not None else "New Font"
        if suffix:
            fam1 += " " + suffix
    if t16 is None:
        t16 = fam1
    if t17 is None:
        t17 = sub2
    ver = N.get("openTypeNameVersion") or "Version %d.%03d" % (N.get("versionMajor", 0), N.get("versionMinor", 0))
    full = " ".join([t16] + t17.split())
    ps = N.get("postscriptFontName")
    if ps is None:
        ps = "".join(c for c in (t16.replace(" ", "") + ("-" if t17 else "") + "".join(t17.split())) if 33 <= ord(c) < 127 and c not in "[](){}<>/%")
    uid = N.get("openTypeNameUniqueID") or "%s;%s;%s" % (ver.replace("Version ", ""), N.get("openTypeOS2VendorID", "NONE"), ps)
    out = {"1": fam1, "2": sub2, "3": uid, "4": full, "5": ver, "6": ps, "16": t16, "17": t17}
    if fam1 == t16 and sub2 == t17:
        out["16"] = out["17"] = None
    return out


def naming(model, rng, fea=0.5, collide=0.6, twin=False, source_records=0.35, labelnames=0.4, stat=0.35):
    """A naming configuration: which fontinfo naming fields exist, axis names, instance names / PostScript names that
    collide with family, style, axis and each other's strings, names supplied through feature code."""
    fam = rng.choice(["Verif Sans", "Foo", "Regular", "Ab Cd Display", "Bold"])
    style = rng.choice(["Regular", "Bold", "Italic", "Bold Italic", "Light", "Condensed Bold", "Black Italic", "regular", "Regular", "Medium"])
    N = {}
    if rng.random() < 0.85:
        N["familyName"] = fam
    if rng.random() < 0.85:
        N["styleName"] = style
    if rng.random() < 0.3:
        N["styleMapFamilyName"] = rng.choice([fam, fam + " " + style, "Legacy Fam"])
    if rng.random() < 0.3:
        N["styleMapStyleName"] = rng.choice(list(RIBBI))
    if rng.random() < 0.25:
        N["openTypeNamePreferredFamilyName"] = rng.choice([fam, "Typo Family"])
    if rng.random() < 0.25:
        N["openTypeNamePreferredSubfamilyName"] = rng.choice([style, "Typo Sub", "Regular"])
    if rng.random() < 0.7:
        N["versionMajor"] = rng.randint(0, 9)
        N["versionMinor"] = rng.choice([0, 1, 5, 12, 100, 999])
    if rng.random() < 0.2:
        N["openTypeNameVersion"] = rng.choice(["Version 2.5", "Version 1.000;beta", "3.1"])
    if rng.random() < 0.2:
        N["openTypeNameUniqueID"] = "uid:" + fam
    if rng.random() < 0.3:
        N["postscriptFontName"] = rng.choice(["Custom-PSName", fam.replace(" ", "") + "-X"])
    if rng.random() < 0.3:
        N["openTypeOS2VendorID"] = "VRFY"
    if twin:
        # one string under several reserved ids (family = style = default instance name)
        t = rng.choice(["Regular", "Bold", "Italic"])
        N["familyName"] = N["styleName"] = t
        for k in ("styleMapFamilyName", "styleMapStyleName", "openTypeNamePreferredFamilyName", "openTypeNamePreferredSubfamilyName"):
            N.pop(k, None)
    model["names"] = N
    exp = expected_names(N)
    model["expect_names"] = exp
    axes = model["axes"]
    # axis names, some colliding with naming strings (kept distinct among axes)
    used = set()
    for a in axes:
        cand = [a["name"]]
        if rng.random() < collide:
            cand = [exp["2"], exp["1"], "Regular", "My " + a["tag"], a["name"]]
        for c in rng.sample(cand, len(cand)):
            if c not in used:
                a["name"] = c
                break
        used.add(a["name"])
    # localized axis label names: the UI label is the one tagged exactly "en", else the axis name; regional English tags
    # (en-GB, en_US, EN) are only ever generated next to a plain "en" so the documented rule decides the outcome
    for a in axes:
        if rng.random() < labelnames:
            ln = {}
            for lang in rng.sample(["fr", "de", "ja", "fa"], rng.randint(0, 2)):
                ln[lang] = f"{a['name']} ({lang})"
            if rng.random() < 0.7:
                ln["en"] = rng.choice([a["name"] + " label", exp["2"], "Inst A", a["name"]])
                for lang in rng.sample(["en-GB", "en-US", "en_AU", "EN", "eng"], rng.randint(0, 3)):
                    ln[lang] = f"{a['name']} ({lang})"
            items = list(ln.items())
            rng.shuffle(items)
            a["labelnames"] = dict(items)
            a["label"] = ln.get("en", a["name"])
    # named instances
    if axes:
        dflt = {a["tag"]: a["default"] for a in axes}
        pool = [exp["2"], exp["17"] or exp["2"], exp["1"], exp["4"], axes[0]["name"], "Inst A", "Inst A", "Inst B", exp["6"], "Regular", "Bold"]
        insts = []
        for k in range(rng.randint(1, 5)):
            loc = dict(dflt)
            if (k and rng.random() < 0.8) or (rng.random() < 0.3 and not (twin and k == 0)):
                for a in axes:
                    loc[a["tag"]] = rng.choice([a["min"], a["max"], a["default"], rng.randint(int(a["min"]), int(a["max"]))])
            name = rng.choice(pool) if rng.random() < collide else f"Inst {k}"
            if twin and k == 0:
                name = N["styleName"]
            ps = None
            insts.append({"name": name, "psname": ps, "user_loc": loc})
        if rng.random() < 0.5:
            for i in insts:
                if rng.random() < 0.7:
                    i["psname"] = rng.choice([exp["6"], "PS-" + i["name"].replace(" ", ""), insts[0]["name"].replace(" ", "") + "PS", exp["1"].replace(" ", "")])
        model["instances"] = insts
    # name records the source supplies itself (UFO openTypeNameRecords): font-specific ids the compiler must not hand out again,
    # strings that coincide with axis / instance names (so the reuse path meets a source-chosen id)
    if rng.random() < source_records:
        pool = ["Source custom", "Source other", exp["1"], "Inst A", "Inst B", "Regular"] + [a["name"] for a in axes] + [i["name"] for i in model.get("instances", [])]
        ids = rng.sample([256, 256, 257, 258, 259, 260, 300, 1000], rng.randint(1, 3))
        recs, seen = [], set()
        for nid in sorted(set(ids)):
            st = rng.choice(pool)
            if st in seen:
                continue  # one string under two source ids: which one a reference reuses is not determined by the rules
            seen.add(st)
            recs.append({"id": nid, "string": st})
        model["name_records"] = recs
    # names through feature code
    model["fea_names"] = []
    if rng.random() < fea:
        L = ["languagesystem DFLT dflt;"]
        letters = [g["name"] for g in model["glyphs"] if g["export"] and len(g["name"]) == 1]
        kind = rng.random()
        if len(letters) >= 2 and kind < 0.7:
            a, b = letters[0], letters[1]
            s1 = rng.choice(["Alt forms", exp["2"], "Inst A", axes[0]["name"] if axes else "Alt"])
            L += ["feature ss01 {", "  featureNames {", f'    name "{s1}";', "  };", f"  sub {a} by {b};", "} ss01;"]
            model["fea_names"].append({"where": "ss01 featureNames", "ref": "ss01 UI name", "string": s1})
            # character variants: parameter labels are addressed as first id + i, strings repeat across features
            labels = ["Plain", "Slashed", "Barred", "Dotted", s1, "Plain"]
            for cv in range(1, 1 + rng.choice([0, 1, 2, 3])):
                tag = f"cv{cv:02d}"
                s2 = rng.choice(["Character variant", s1, "Zero forms"])
                params = [rng.choice(labels) for _ in range(rng.randint(0, 3))]
                L += [f"feature {tag} {{", "  cvParameters {", f'    FeatUILabelNameID {{ name "{s2}"; }};']
                if rng.random() < 0.4:
                    tip = rng.choice(["A tooltip", s2])
                    L.append(f'    FeatUITooltipTextNameID {{ name "{tip}"; }};')
                    model["fea_names"].append({"where": f"{tag} tooltip", "ref": f"{tag} tooltip", "string": tip})
                for pi, ps in enumerate(params):
                    L.append(f'    ParamUILabelNameID {{ name "{ps}"; }};')
                    model["fea_names"].append({"where": f"{tag} parameter {pi}", "ref": f"{tag} parameter {pi}", "string": ps})
                L += ["  };", f"  sub {b} by {a};", f"}} {tag};"]
                model["fea_names"].append({"where": f"{tag} label", "ref": f"{tag} label", "string": s2})
            if rng.random() < 0.3:
                s5 = rng.choice(["Second set", s1])
                L += ["feature ss02 {", "  featureNames {", f'    name "{s5}";', "  };", f"  sub {b} by {a};", "} ss02;"]
                model["fea_names"].append({"where": "ss02 featureNames", "ref": "ss02 UI name", "string": s5})
        if rng.random() < 0.5:
            s4 = rng.choice(["A designer", exp["1"]])
            L += ["table name {", f'  nameid 9 "{s4}";', f'  nameid 256 "Custom string";', "} name;"]
            model["fea_names"].append({"where": "name id 9", "id": 9, "string": s4})
            model["fea_names"].append({"where": "a font-specific name", "id": 256, "string": "Custom string"})
        if rng.random() < stat:
            # a STAT table written in feature code replaces the generated one: axis names, axis value names and the elided
            # fallback name are then the feature file's strings (some coincide with naming / instance / axis strings)
            pool = ["Regular", "Bold", "Light", "Upright", exp["2"], exp["1"], "Inst A", "Caption"] + [a.get("label", a["name"]) for a in axes]
            S = {"elided": rng.choice(["Regular", exp["2"], "Roman"]), "axes": {}, "values": []}
            st = ["table STAT {", f'  ElidedFallbackName {{ name "{S["elided"]}"; }};']
            tags = [a["tag"] for a in axes] + (["ital"] if rng.random() < 0.4 or not axes else [])
            for i, t in enumerate(tags):
                S["axes"][t] = rng.choice([t.upper() + " axis", rng.choice(pool)])
                st.append(f'  DesignAxis {t} {i} {{ name "{S["axes"][t]}"; }};')
            for t in tags:
                ax = next((a for a in axes if a["tag"] == t), {"min": 0, "max": 1, "default": 0})
                vals = sorted({ax["default"], ax["min"], ax["max"]} | {rng.randint(int(ax["min"]), int(ax["max"]))})
                for v in rng.sample(vals, rng.randint(1, len(vals))):
                    nm = rng.choice(pool)
                    form = rng.random()
                    if form < 0.5:
                        loc = f"{t} {fnum(v)}"
                    elif form < 0.75:
                        loc = f"{t} {fnum(v)} {fnum(v - 10)} {fnum(v + 10)}"
                    else:
                        loc = f"{t} {fnum(v)} {fnum(v + 300)}"
                    flag = " flag ElidableAxisValueName;" if rng.random() < 0.25 else ""
                    st.append(f'  AxisValue {{ location {loc}; name "{nm}";{flag} }};')
                    S["values"].append({"axis": t, "value": v, "name": nm})
            st.append("} STAT;")
            L += st
            model["fea_stat"] = S
        model["features_fea"] = "\n".join(L) + "\n"
    return model


# ------------------------------------------------------------------------------------------ boundary values (C19)
def boundary(model, rng, kind=None):
    """Plant one value at / just beyond a representable limit.  model["boundary"] records what and where, so that the
    oracle can tell 'rejected', 'read back unchanged' and 'shape preserved' from 'clamped or wrapped'."""
    kinds = ["advance", "neg-advance", "coord", "coord-diff", "comp-offset", "comp-scale", "kern", "anchor", "metric", "var-delta",
             "upem", "weightclass", "widthclass", "height", "lsb", "cubic-arch"]
    glyphs = [g for g in model["glyphs"] if g["export"] and g["name"] != ".notdef"]
    simple = [g for g in glyphs if all(not l["components"] for l in g["layers"].values()) and any(l["contours"] for l in g["layers"].values())]
    comps = [g for g in glyphs if any(l["components"] for l in g["layers"].values())]
    full = [m for m in model["masters"] if m["layer"] is None]
    kind = kind or rng.choice(kinds)
    tags = {a["tag"] for a in model["axes"]}
    if (kind == "weightclass" and "wght" in tags) or (kind == "widthclass" and "wdth" in tags):
        kind = "advance"  # a variable font takes these classes from the axis default, not from fontinfo
    b = {"kind": kind}
    I16 = [32766, 32767, 32768, -32768, -32769, 40000, -40000, 70000]

    def all_layers(g):
        return list(g["layers"].values())
    if kind in ("advance", "neg-advance", "height"):
        g = rng.choice(glyphs)
        v = rng.choice([65534, 65535, 65536, 70000, 131071]) if kind != "neg-advance" else rng.choice([-1, -50, -32768])
        key = "height" if kind == "height" else "width"
        if kind == "height" and all_layers(g)[0].get("height") is None:
            kind = b["kind"] = "advance"
            key = "width"
        for l in all_layers(g):
            l[key] = v
        b.update(glyph=g["name"], value=v, beyond=v > 65535 or v < 0, accept="must" if 0 <= v <= 65535 else "reject")
    elif kind in ("coord", "lsb") and simple:
        g = rng.choice(simple)
        v = rng.choice(I16 + [16000, -16000])
        axis = rng.choice([0, 1])
        for l in all_layers(g):
            if l["contours"]:
                l["contours"][0][0][axis] = v
        # (-32768 is representable, but the step to or from it from any point on the other side of the origin is not)
        # near the limit the step to the neighbouring points may not fit either: acceptance is only required well inside
        b.update(glyph=g["name"], value=v, beyond=abs(v) > 32767, accept="must" if abs(v) <= 16000 else ("reject" if abs(v) > 32768 else "either"))
    elif kind == "coord-diff" and simple:
        g = rng.choice(simple)
        lo, hi = rng.choice([(-16384, 16383), (-16384, 16384), (-20000, 20000), (-32768, 32767), (0, 32767)])
        for l in all_layers(g):
            if l["contours"] and len(l["contours"][0]) >= 3:
                c = l["contours"][0]
                c[0][0], c[1][0] = lo, hi
        # 'must be accepted' only when no two points of the glyph (whatever start point, direction and contour order the
        # compiler picks) are further apart than a 16-bit delta, in any master
        spread = max((max(p[0] for c in l["contours"] for p in c) - min(p[0] for c in l["contours"] for p in c)) for l in all_layers(g) if l["contours"])
        b.update(glyph=g["name"], value=hi - lo, beyond=hi - lo > 32767, accept="must" if spread <= 32767 - 2 else "either")
    elif kind == "comp-offset" and comps:
        g = rng.choice(comps)
        v = rng.choice(I16)
        for l in all_layers(g):
            if l["components"]:
                l["components"][0]["xform"][4] = v
        b.update(glyph=g["name"], value=v, beyond=abs(v) > 32767 and v != -32768)
    elif kind == "comp-scale" and comps:
        g = rng.choice(comps)
        v = rng.choice([1.99993896484375, 1.99997, 2.0, -2.0, 2.0001, -2.0001, 3.0, -5.0])
        which = rng.choice([0, 3, 1, 2])
        # a glyph that also has an outline of its own takes another route through the compiler (contours moved into a new component, or the
        # glyph decomposed) than a pure composite
        mixed = rng.random() < 0.5 and not any(l["contours"] for l in all_layers(g))
        own = dedupe(polygon(rng, rnum(rng, 100, 500), rnum(rng, 0, 600), rnum(rng, 40, 150), rng.randint(3, 5), None)) if mixed else None
        for l in all_layers(g):
            if l["components"]:
                l["components"][0]["xform"][which] = v
                if mixed:
                    l["contours"] = [[list(p) for p in own]]
        b.update(glyph=g["name"], value=v, entry=which, mixed=mixed, beyond=abs(v) > 1.99993896484375 and v != -2.0)
    elif kind == "kern" and len(glyphs) >= 2:
        a, c = glyphs[0]["name"], glyphs[1]["name"]
        v = rng.choice(I16)
        for m in full:
            m["kerning"] = {a: {c: v}}
            m["groups"] = {}
        b.update(pair=[a, c], value=v, beyond=abs(v) > 32767 and v != -32768)
    elif kind == "anchor" and len(glyphs) >= 2:
        base, mark = glyphs[0], glyphs[1]
        v = rng.choice(I16)
        for l in all_layers(base):
            l["anchors"] = [{"name": "top", "x": v, "y": 700}]
        for l in all_layers(mark):
            l["anchors"] = [{"name": "_top", "x": 100, "y": 600}]
        model["lib"]["public.openTypeCategories"] = {base["name"]: "base", mark["name"]: "mark"}
        b.update(glyph=base["name"], value=v, beyond=abs(v) > 32767 and v != -32768)
    elif kind == "metric":
        key = rng.choice(["ascender", "descender", "openTypeOS2TypoAscender", "openTypeOS2TypoLineGap", "openTypeHheaAscender", "openTypeHheaLineGap",
                          "openTypeOS2WinAscent", "postscriptUnderlinePosition", "openTypeOS2StrikeoutSize", "xHeight", "capHeight", "openTypeOS2SubscriptYOffset"])
        unsigned = key in ("openTypeOS2WinAscent",)
        v = rng.choice([65535, 65536, 70000, -1] if unsigned else I16)
        for m in full:
            m["info"][key] = v
        beyond = (v > 65535 or v < 0) if unsigned else (abs(v) > 32767 and v != -32768)
        # ascender / descender also shape the synthesized .notdef and the vertical origin: near the limit either outcome is fine
        b.update(field=key, value=v, beyond=beyond, accept="reject" if beyond else ("either" if key in ("ascender", "descender", "openTypeOS2TypoAscender") else "must"))
    elif kind == "var-delta" and simple and len(full) >= 2:
        g = rng.choice(simple)
        lo, hi = rng.choice([(-16384, 16383), (-16384, 16384), (-20000, 20000), (-32768, 32767)])
        first = True
        for mname, l in g["layers"].items():
            if l["contours"]:
                l["contours"][0][0][0] = lo if first else hi
            first = False
        b.update(glyph=g["name"], value=hi - lo, beyond=hi - lo > 32767)
    elif kind == "corner-delta" and simple and len(model["axes"]) >= 2:
        # every master within 16 bits of the default, but the corner master's own delta (corner - default - the two on-axis
        # deltas) is not: default 0, on-axis masters +v, corner -v  ->  corner delta -3v
        dflt = list(full[0]["design_loc"].values())
        locs = {m["name"]: list(m["design_loc"].values()) for m in full}
        diff = lambda l: [k for k in range(len(dflt)) if l[k] != dflt[k]]  # noqa
        triple = None
        for ab, lab in locs.items():
            if len(diff(lab)) != 2:
                continue
            i, j = diff(lab)
            a = next((n for n, l in locs.items() if diff(l) == [i] and l[i] == lab[i]), None)
            bb = next((n for n, l in locs.items() if diff(l) == [j] and l[j] == lab[j]), None)
            if a and bb:
                triple = (a, bb, ab)
                break
        cands = [g for g in simple if triple and all(n in g["layers"] and g["layers"][n]["contours"] for n in triple + (full[0]["name"],))]
        if cands:
            g = rng.choice(cands)
            v = rng.choice([5000, 10000, 10922, 10923, 12000, 20000, 30000])
            for mname, l in g["layers"].items():
                if not l["contours"]:
                    continue
                x0 = l["contours"][0][0][0] if mname == full[0]["name"] else g["layers"][full[0]["name"]]["contours"][0][0][0]
                if mname in triple[:2]:
                    l["contours"][0][0][0] = x0 + v
                elif mname == triple[2]:
                    l["contours"][0][0][0] = x0 - v
            b.update(glyph=g["name"], value=-3 * v, beyond=3 * v > 32768, masters=list(triple),
                     accept="reject" if 3 * v > 32768 else ("must" if 3 * v <= 32760 else "either"))
        else:
            b["kind"] = "none"
    elif kind == "cubic-arch" and simple:
        # every source point fits 16 bits, but the quadratic approximation of a wide bulging cubic needs an off-curve point
        # about 1.5x further out than the handles
        g = rng.choice(simple)
        a = rng.choice([12000, 15000, 21000, 22000, 25000, 30000])
        flip = rng.choice([1, -1])
        for l in all_layers(g):
            w = 8000  # (the base of the arch stays well inside the point-to-point limit)
            l["contours"] = [[[-w, 0, "line"], [-w / 3, flip * a, "off"], [w / 3, flip * a, "off"], [w, 0, "curve"]]]
            l["components"] = []
        b.update(glyph=g["name"], value=a, beyond=a * 1.5 > 32767, accept="must" if a * 1.5 <= 32767 else "either")
    elif kind == "upem":
        v = rng.choice([15, 16, 16384, 16385, 65535, 65536, 100000])
        model["upem"] = v
        b.update(value=v, beyond=v > 16384 or v < 16, accept="must" if 16 <= v <= 16384 else "reject")
    elif kind == "weightclass":
        v = rng.choice([0, 1, 1000, 1001, 65535, 65536, 70000, -1])
        model.setdefault("names", {})["openTypeOS2WeightClass"] = v
        b.update(value=v, beyond=v > 65535 or v < 0, accept="must" if 1 <= v <= 1000 else ("reject" if v > 65535 or v < 0 else "either"))
    elif kind == "widthclass":
        v = rng.choice([0, 1, 9, 10, 100, -1])
        model.setdefault("names", {})["openTypeOS2WidthClass"] = v
        b.update(value=v, beyond=v < 1 or v > 9, accept="must" if 1 <= v <= 9 else "reject")
    else:
        b["kind"] = "none"
    if "accept" not in b:
        b["accept"] = "reject" if b.get("beyond") else "must"
        if b["kind"] in ("var-delta", "comp-scale", "comp-offset"):
            b["accept"] = "either" if b.get("beyond") else "must"  # a shape-preserving fallback is as good as an error
    model["boundary"] = b
    model["expect"] = {"compiles": "either"}
    return model


# ------------------------------------------------------------------------------------------ designspace rules (C16 end to end)
RULE_GLYPHS = ["A", "B", "C", "D", "E", "A.alt1", "A.alt2", "B.alt1", "C.alt1", "C.alt2", "D.alt1"]


def add_rules(model, rng, n_rules=None, conflicts=0.2):
    """Designspace <rules>: 1-5 rules, 1-2 condition sets each, conditions on 1-2 axes in design coordinates
    (open-ended, nested, overlapping, identical boxes), substitutions to alternates; some rules share a substitution,
    a few map one glyph to different targets (conflicts: evaluated under finding F8 only)."""
    axes = model["axes"]
    have = {g["name"] for g in model["glyphs"]}
    bases = [n for n in ("A", "B", "C", "D") if n in have]
    alts = {b: [n for n in have if n.startswith(b + ".alt")] for b in bases}
    rules = []
    for _ in range(n_rules or rng.randint(1, 5)):
        sets = []
        for _s in range(rng.randint(1, 2)):
            conds = []
            for a in rng.sample(axes, rng.randint(1, len(axes))):
                lo, df, hi = design_bounds(a)
                dl, dh = sorted((lo, hi))
                pts = sorted(rng.choice([dl, df, dh, round(dl + (dh - dl) * rng.random(), rng.choice([0, 1]))]) for _ in range(2))
                shape = rng.random()
                c = {"axis": a["name"], "tag": a["tag"], "min": pts[0], "max": pts[1]}
                if shape < 0.25:
                    c["min"] = None
                elif shape < 0.5:
                    c["max"] = None
                if c["min"] is not None and c["max"] is not None and c["min"] == c["max"] and rng.random() < 0.7:
                    c["max"] = dh  # mostly avoid zero-width boxes
                conds.append(c)
            sets.append(conds)
        subs = []
        for b in rng.sample(bases, rng.randint(1, min(2, len(bases)))):
            if alts[b]:
                target = sorted(alts[b])[0] if rng.random() > conflicts else rng.choice(sorted(alts[b]))
                subs.append([b, target])
        if subs:
            rules.append({"sets": sets, "subs": subs})
    model["rules"] = {"processing": rng.choice(["first", "first", "last"]), "rules": rules} if rules else None
    r2 = random.Random(rng.random())
    if r2.random() < 0.4:
        # a point axis in front of (or between) the axes the conditions name: condition axis indices count fvar axes only
        add_point_axis(model, r2, mapped=0.3)
        # ... and conditions on the point axis itself: the font sits at its one position, so such a condition holds
        # everywhere (the condition set is decided by its other conditions) or nowhere (the set never applies)
        pa = next(a for a in model["axes"] if a["min"] == a["max"])
        pos = pa["map"][0][1] if pa["map"] else pa["default"]
        for rule in rules:
            for cs in rule["sets"]:
                if r2.random() < 0.3:
                    kind = r2.random()
                    if kind < 0.6:
                        cs.append({"axis": pa["name"], "tag": pa["tag"], "min": pos - r2.randint(0, 5), "max": pos + r2.randint(0, 5)})
                    elif kind < 0.8:
                        cs.append({"axis": pa["name"], "tag": pa["tag"], "min": pos + 1, "max": None})
                    else:
                        cs.append({"axis": pa["name"], "tag": pa["tag"], "min": None, "max": pos - 1})
        var_axes = [a for a in model["axes"] if a["min"] != a["max"]]
        if rules and var_axes and r2.random() < 0.6:
            # a condition set that can never apply (the point axis excludes it) in front of the rule's other sets, narrowing a variable axis
            # that the following set does not mention: nothing of the dead set may survive into the next one
            rule = r2.choice(rules)
            a = r2.choice(var_axes)
            lo, df, hi = design_bounds(a)
            dl, dh = sorted((lo, hi))
            mid = round(dl + (dh - dl) * r2.uniform(0.3, 0.7))
            dead = [{"axis": a["name"], "tag": a["tag"], "min": mid, "max": dh} if r2.random() < 0.5 else {"axis": a["name"], "tag": a["tag"], "min": dl, "max": mid},
                    {"axis": pa["name"], "tag": pa["tag"], "min": pos + 1, "max": None} if r2.random() < 0.5 else {"axis": pa["name"], "tag": pa["tag"], "min": None, "max": pos - 1}]
            r2.shuffle(dead)
            nxt = rule["sets"][0]
            rest = [c for c in nxt if c["tag"] != a["tag"]]
            if rest:
                nxt[:] = rest
            rule["sets"].insert(0, dead)
            model.setdefault("notes", []).append("dead-set-first")
    if rules and r2.random() < 0.6 and {"D", "E"} <= have:
        # feature code of the source next to the rules: an aalt feature puts its own lookups in front of everything
        # else in GSUB, so the lookups the rule records point to move (they must move with it)
        feats = [("aalt", "feature salt;" + (" feature ss01;" if r2.random() < 0.5 else "")), ("salt", "sub E by D;"), ("ss01", "sub D by E;")]
        if r2.random() < 0.5:
            feats.append(("liga", "sub D E by E;"))
        model["fea_features"] = feats
        model["features_fea"] = "languagesystem DFLT dflt;\n" + "".join(f"feature {t} {{\n  {code}\n}} {t};\n" for t, code in feats)
    return model


def source_flags(model, rng):
    """The source itself asks for compilation options (ufo2ft filters in the lib): every entry point has to honour them alike."""
    names = rng.sample(["decomposeTransformedComponents", "flattenComponents", "propagateAnchors", "eraseOpenCorners"], rng.randint(1, 2))
    model["lib"]["com.github.googlei18n.ufo2ft.filters"] = [{"name": n, "pre": True} for n in names]
    return model
