"""Render a design model (gen/model.py) to designspace + UFO3 sources, plus manifest.json."""
import json
import os
import plistlib
from xml.sax.saxutils import escape, quoteattr


def fnum(v):
    if isinstance(v, float) and v == int(v):
        v = int(v)
    return repr(v) if isinstance(v, float) else str(v)


def glyph_filename(name, used):
    """UFO user-name-to-file-name convention (simplified but injective via `used`)."""
    out = []
    for ch in name:
        if ch in '"*+/:<>?[\\]|' or ord(ch) < 32 or ord(ch) == 127:
            out.append("_")
        elif ch != ch.lower():
            out.append(ch + "_")
        else:
            out.append(ch)
    base = "".join(out)
    if base.startswith("."):
        base = "_" + base[1:]
    base = base[:200]
    cand = base
    i = 1
    while cand.lower() in used:
        cand = f"{base}{i:015d}"
        i += 1
    used.add(cand.lower())
    return cand + ".glif"


def glif(name, g, layer):
    L = ['<?xml version="1.0" encoding="UTF-8"?>', f"<glyph name={quoteattr(name)} format=\"2\">"]
    adv = f'width="{fnum(layer["width"])}"'
    if layer.get("height") is not None:
        adv += f' height="{fnum(layer["height"])}"'
    L.append(f"  <advance {adv}/>")
    us = g.get("unicodes", []) if layer.get("_default", True) else []
    if layer.get("_unicodes") is not None:
        us = layer["_unicodes"]  # a non-default master that disagrees with the default about codepoints (the default decides)
    for u in us:
        L.append(f'  <unicode hex="{u:04X}"/>')
    for a in layer.get("anchors", []):
        L.append(f'  <anchor name={quoteattr(a["name"])} x="{fnum(a["x"])}" y="{fnum(a["y"])}"/>')
    if layer["contours"] or layer["components"]:
        L.append("  <outline>")
        for c in layer["components"]:
            a, b, cc, d, e, f = c["xform"]
            attrs = f'base={quoteattr(c["base"])}'
            for k, v, dflt in (("xScale", a, 1), ("xyScale", b, 0), ("yxScale", cc, 0), ("yScale", d, 1), ("xOffset", e, 0), ("yOffset", f, 0)):
                if v != dflt:
                    attrs += f' {k}="{fnum(v)}"'
            L.append(f"    <component {attrs}/>")
        for contour in layer["contours"]:
            L.append("    <contour>")
            for x, y, t in contour:
                ty = "" if t == "off" else f' type="{t}"'
                L.append(f'      <point x="{fnum(x)}" y="{fnum(y)}"{ty}/>')
            L.append("    </contour>")
        L.append("  </outline>")
    if layer.get("lib"):
        L.append("  <lib>")
        L.append(plistlib.dumps(layer["lib"], fmt=plistlib.FMT_XML).decode().split("<plist version=\"1.0\">")[1].rsplit("</plist>")[0].strip())
        L.append("  </lib>")
    L.append("</glyph>")
    return "\n".join(L) + "\n"


def write_plist(path, obj):
    with open(path, "wb") as f:
        plistlib.dump(obj, f, fmt=plistlib.FMT_XML, sort_keys=False)


def write_layer(dirpath, model, master_name, only_default_unicodes=True):
    os.makedirs(dirpath, exist_ok=True)
    contents = {}
    used = set()
    for g in model["glyphs"]:
        layer = g["layers"].get(master_name)
        if layer is None:
            continue
        fn = glyph_filename(g["name"], used)
        contents[g["name"]] = fn
        with open(os.path.join(dirpath, fn), "w", encoding="utf-8") as f:
            f.write(glif(g["name"], g, layer))
    write_plist(os.path.join(dirpath, "contents.plist"), contents)


def render(model, outdir, lib_in="designspace"):
    """Write <outdir>/<family>.designspace, its UFOs and manifest.json; returns the designspace path.

    `lib_in`: where public.skipExportGlyphs / openTypeCategories go ("designspace" | "ufo")."""
    os.makedirs(outdir, exist_ok=True)
    fam = model["family"]
    if not model["axes"]:
        lib_in = "ufo"  # a lone UFO is the source; public.* keys are read from its own lib
    full = [m for m in model["masters"] if m["layer"] is None]
    sparse = [m for m in model["masters"] if m["layer"] is not None]
    for mi, m in enumerate(full):
        if m.get("reuses_default_ufo"):
            continue  # a second <source> pointing at the default master's UFO: nothing of its own on disk
        ufo = os.path.join(outdir, m["ufo"])
        os.makedirs(ufo, exist_ok=True)
        write_plist(os.path.join(ufo, "metainfo.plist"), {"creator": "verif.gen", "formatVersion": 3})
        info = {"familyName": model["names"].get("familyName", fam), "styleName": m["name"] if mi else model["names"].get("styleName", "Regular"),
                "unitsPerEm": model["upem"]}
        if mi == 0:
            if "expect_names" in model:  # naming family: exactly the fields the model lists, nothing implied
                info = {"unitsPerEm": model["upem"]}
            for k, v in model["names"].items():
                info[k] = v
            if model.get("name_records"):
                info["openTypeNameRecords"] = [{"nameID": r["id"], "platformID": 3, "encodingID": 1, "languageID": 0x409, "string": r["string"]} for r in model["name_records"]]
        info.update(m["info"])
        write_plist(os.path.join(ufo, "fontinfo.plist"), info)
        layers = [["public.default", "glyphs"]]
        write_layer(os.path.join(ufo, "glyphs"), model, m["name"])
        if mi == 0:
            for s in sparse:
                d = "glyphs." + glyph_filename(s["layer"], set())[:-5]
                s["_layerdir"] = d
                layers.append([s["layer"], d])
                write_layer(os.path.join(ufo, d), model, s["name"])
        write_plist(os.path.join(ufo, "layercontents.plist"), layers)
        lib = {}
        if mi == 0:
            for k, v in model["lib"].items():
                if k in ("public.glyphOrder", "public.postscriptNames") or lib_in == "ufo" or not k.startswith("public."):
                    lib[k] = v
        write_plist(os.path.join(ufo, "lib.plist"), lib)
        if m["groups"]:
            write_plist(os.path.join(ufo, "groups.plist"), m["groups"])
        if m["kerning"]:
            write_plist(os.path.join(ufo, "kerning.plist"), m["kerning"])
        if mi == 0 and model.get("features_fea"):
            with open(os.path.join(ufo, "features.fea"), "w") as f:
                f.write(model["features_fea"])
    with open(os.path.join(outdir, "manifest.json"), "w") as f:
        json.dump(model, f, indent=1)
    if not model["axes"]:
        return os.path.join(outdir, full[0]["ufo"])
    ds = os.path.join(outdir, f"{fam}.designspace")
    L = ["<?xml version='1.0' encoding='UTF-8'?>", '<designspace format="5.0">', "  <axes>"]
    for a in model["axes"]:
        hidden = ' hidden="1"' if a.get("hidden") else ""
        L.append(f'    <axis tag="{a["tag"]}" name={quoteattr(a["name"])} minimum="{fnum(a["min"])}" maximum="{fnum(a["max"])}" default="{fnum(a["default"])}"{hidden}>')
        for lang, st in a.get("labelnames", {}).items():
            L.append(f'      <labelname xml:lang="{lang}">{escape(st)}</labelname>')
        for u, d in a["map"]:
            L.append(f'      <map input="{fnum(u)}" output="{fnum(d)}"/>')
        for lab in a.get("labels", []):
            at = f'uservalue="{fnum(lab["value"])}" name={quoteattr(lab["name"])}'
            if lab.get("elidable"):
                at += ' elidable="true"'
            L.append("      <labels>" if lab is a["labels"][0] else "")
            L.append(f"        <label {at}/>")
        if a.get("labels"):
            L.append("      </labels>")
        L.append("    </axis>")
    L.append("  </axes>")
    if model.get("rules"):
        r = model["rules"]
        L.append(f'  <rules processing="{r.get("processing", "first")}">')
        for i, rule in enumerate(r["rules"]):
            L.append(f'    <rule name="r{i}">')
            for cs in rule["sets"]:
                L.append("      <conditionset>")
                for c in cs:
                    at = f'name={quoteattr(c["axis"])}'
                    if c.get("min") is not None:
                        at += f' minimum="{fnum(c["min"])}"'
                    if c.get("max") is not None:
                        at += f' maximum="{fnum(c["max"])}"'
                    L.append(f"        <condition {at}/>")
                L.append("      </conditionset>")
            for a_, b_ in rule["subs"]:
                L.append(f"      <sub name={quoteattr(a_)} with={quoteattr(b_)}/>")
            L.append("    </rule>")
        L.append("  </rules>")
    L.append("  <sources>")
    name_of = {a["tag"]: a["name"] for a in model["axes"]}
    for m in model["masters"]:
        layer = f' layer={quoteattr(m["layer"])}' if m["layer"] else ""
        L.append(f'    <source filename={quoteattr(m["ufo"])} name={quoteattr(fam + " " + m["name"])}{layer}>')
        L.append("      <location>")
        for tag, v in m["design_loc"].items():
            L.append(f'        <dimension name={quoteattr(name_of[tag])} xvalue="{fnum(v)}"/>')
        L.append("      </location>")
        L.append("    </source>")
    L.append("  </sources>")
    if model["instances"]:
        from . import model as M
        L.append("  <instances>")
        axes = {a["tag"]: a for a in model["axes"]}
        for inst in model["instances"]:
            ps = f' postscriptfontname={quoteattr(inst["psname"])}' if inst.get("psname") else ""
            L.append(f'    <instance name={quoteattr(model["names"].get("familyName", fam) + " " + inst["name"])} familyname={quoteattr(model["names"].get("familyName", fam))} stylename={quoteattr(inst["name"])}{ps}>')
            L.append("      <location>")
            for tag, u in inst["user_loc"].items():
                L.append(f'        <dimension name={quoteattr(name_of[tag])} xvalue="{fnum(M.user_to_design(axes[tag], u))}"/>')
            L.append("      </location>")
            L.append("    </instance>")
        L.append("  </instances>")
    dslib = {k: v for k, v in model["lib"].items() if k.startswith("public.") and k not in ("public.glyphOrder", "public.postscriptNames")} if lib_in == "designspace" else {}
    if dslib:
        L.append("  <lib>")
        body = plistlib.dumps(dslib, fmt=plistlib.FMT_XML, sort_keys=False).decode()
        body = body.split('<plist version="1.0">')[1].rsplit("</plist>")[0].strip()
        L.append(body)
        L.append("  </lib>")
    L.append("</designspace>")
    with open(ds, "w", encoding="utf-8") as f:
        f.write("\n".join(x for x in L if x != "") + "\n")
    return ds
