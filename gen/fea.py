"""Random feature-file programs for C11, kept as an AST (plain dicts / lists) next to the emitted FEA text.

The AST is what `vlib/feainterp.py` interprets directly under the feature-file specification; the text is
what fea-rs compiles.  The grammar stays inside the region where the specification determines the result:
no duplicate keys inside a lookup, class pairs drawn from one partition per side, no aalt/size/cursive/mark
classes.

Program = {
  "glyphs": [names]                       glyph id = index; index 0 is .notdef
  "gdef":   None | {"base": [...], "lig": [...], "mark": [...]}
  "classes": {name: [glyphs]}             top-level named glyph classes (@name)
  "langsys": [[script, lang], ...]        languagesystem statements (may be empty)
  "items":  [["lookup", L] | ["feature", tag, [stmt...]]]
}
L    = {"name", "flag": F, "rules": [rule...]}                 (all rules of one type)
F    = {"ignore": ["base"|"lig"|"mark"...], "attach": classname|None, "filter": classname|None}
stmt = ["script", tag] | ["language", tag, include_dflt] | ["lookupflag", F] | ["rule", rule]
     | ["ref", lookupname] | ["block", L]
rule = {"t": "single",  "map": [[from, to], ...], "text": how it is written}
     | {"t": "multi",   "from": g, "to": [g...]}
     | {"t": "alt",     "from": g, "to": [g...]}
     | {"t": "lig",     "comps": [[g...] per position], "to": g}      (class positions are expanded in order)
     | {"t": "ctx",     "back": [set...], "input": [[set, action]...], "ahead": [set...], "ignore": bool}
          action = None | ["lookup", name] | ["single", [[from,to]...]] ; a ligature inline rule is
          {"t":"ctx", ..., "inline_lig": g} with every input position marked
     | {"t": "pos1",    "glyphs": [g...], "value": V}
     | {"t": "pos2",    "first": [g...], "second": [g...], "value": V, "cls": bool, "enum": bool}
     | {"t": "posctx",  "back": [...], "input": [[set, action]...], "ahead": [...]}     action = None | ["lookup", name] | ["value", V]
V    = [xPlacement, yPlacement, xAdvance, yAdvance]
A "set" is a list of glyph names (written as a single glyph, an inline class or a named class)."""
import re

SCRIPTS = ["latn", "cyrl", "grek"]
LANGS = ["TRK ", "SRB ", "DEU "]
FEATURES = ["liga", "calt", "ccmp", "ss01", "kern", "dist", "cpsp", "test", "locl", "rlig"]
GSUB_TYPES = ["single", "multi", "alt", "lig", "ctx"]
GPOS_TYPES = ["pos1", "pos2", "posctx"]
MARK_TYPES = ["markbase", "markmark", "marklig"]


class Gen:
    def __init__(self, rng, knobs=None):
        self.rng = rng
        self.k = dict(n_glyphs=14, gdef=0.6, n_classes=3, n_named=2, n_features=3, scripts=0.6, flags=0.4, ctx=0.4, gpos=0.5, max_rules=5)
        self.k.update(knobs or {})

    # ------------------------------------------------------------------ helpers
    def pick_set(self, pool, kmax=3, named=0.3):
        """A glyph set as written: single glyph, inline class or named class."""
        r = self.rng
        if self.prog["classes"] and r.random() < named:
            name = r.choice(sorted(self.prog["classes"]))
            members = [g for g in self.prog["classes"][name]]
            if all(g in pool for g in members):
                return {"w": "@" + name, "g": members}
        n = 1 if r.random() < 0.55 else r.randint(2, kmax)
        gl = r.sample(pool, min(n, len(pool)))
        return {"w": "g" if len(gl) == 1 else "c", "g": gl}

    def flag(self):
        r = self.rng
        f = {"ignore": [], "attach": None, "filter": None}
        if not self.prog["gdef"] or r.random() > self.k["flags"]:
            return f
        kind = r.random()
        if kind < 0.45:
            f["ignore"] = ["mark"]
        elif kind < 0.6:
            f["ignore"] = r.sample(["base", "lig", "mark"], r.randint(1, 2))
        elif self.mark_classes:
            f["attach" if r.random() < 0.5 else "filter"] = r.choice(self.mark_classes)
        return f

    def value(self, simple=0.6):
        r = self.rng
        if r.random() < simple:
            return [0, 0, r.choice([-1, 1]) * r.randint(1, 90), 0]
        v = [r.randint(-50, 50) if r.random() < 0.6 else 0 for _ in range(4)]
        if not any(v):
            v[2] = 7
        return v

    # ------------------------------------------------------------------ rules
    def rules_of(self, typ, n, named_ok=True):
        r = self.rng
        G = self.letters
        rules = []
        if typ == "single":
            used = set()
            for _ in range(n):
                form = r.random()
                src = [g for g in G if g not in used]
                if len(src) < 2:
                    break
                if form < 0.5:
                    a, b = r.choice(src), r.choice(self.all_glyphs)
                    rules.append({"t": "single", "map": [[a, b]], "form": "gg"})
                    used.add(a)
                elif form < 0.75:
                    s = r.sample(src, min(len(src), r.randint(2, 3)))
                    nr = [g for g in self.prog["classes"].get("nr", []) if g not in used]
                    if len(nr) >= 2 and r.random() < 0.6:
                        s = nr  # the numbered run, written as a numeric range
                    b = r.choice(self.all_glyphs)
                    rules.append({"t": "single", "map": [[a, b] for a in s], "form": "cg"})
                    used.update(s)
                else:
                    s = r.sample(src, min(len(src), r.randint(2, 3)))
                    t = [r.choice(self.all_glyphs) for _ in s]
                    rules.append({"t": "single", "map": [[a, b] for a, b in zip(s, t)], "form": "cc"})
                    used.update(s)
        elif typ == "multi":
            for a in r.sample(G, min(n, len(G))):
                rules.append({"t": "multi", "from": a, "to": [r.choice(self.all_glyphs) for _ in range(r.randint(2, 3))]})
        elif typ == "alt":
            for a in r.sample(G, min(n, len(G))):
                rules.append({"t": "alt", "from": a, "to": r.sample(self.all_glyphs, r.randint(1, 3))})
        elif typ == "lig":
            seen = set()
            firsts = r.sample(G, min(2, len(G)))  # shared prefixes on purpose
            for _ in range(n):
                ln = r.randint(2, 4)
                comps = [[r.choice(firsts)]] + [[r.choice(G[:6])] for _ in range(ln - 1)]
                if r.random() < 0.25:
                    i = r.randrange(1, ln)
                    comps[i] = r.sample(G[:6], 2)
                keys = self.expand(comps)
                if any(k in seen for k in keys):
                    continue
                seen.update(keys)
                rules.append({"t": "lig", "comps": comps, "to": r.choice(self.ligs or self.all_glyphs)})
        elif typ == "ctx":
            for _ in range(n):
                rules.append(self.sibling(rules, self.ctx_rule(False, named_ok)))
        elif typ == "pos1":
            used = set()
            for _ in range(n):
                src = [g for g in self.all_glyphs if g not in used]
                if not src:
                    break
                s = r.sample(src, min(len(src), 1 if r.random() < 0.6 else 2))
                used.update(s)
                rules.append({"t": "pos1", "glyphs": s, "value": self.value()})
        elif typ == "pos2":
            # glyph pairs first, then class pairs drawn from one partition per side
            seen = set()
            ng = r.randint(0, n)
            for _ in range(ng):
                a, b = r.choice(G), r.choice(self.all_glyphs)
                if r.random() < 0.25:
                    bs = r.sample(self.all_glyphs, 2)
                    if any((a, x) in seen for x in bs):
                        continue
                    seen.update((a, x) for x in bs)
                    rules.append({"t": "pos2", "first": [a], "second": bs, "value": self.value(0.8), "cls": False, "enum": True})
                    continue
                if (a, b) in seen:
                    continue
                seen.add((a, b))
                rules.append({"t": "pos2", "first": [a], "second": [b], "value": self.value(0.8), "cls": False, "enum": False})
            if n - ng > 0:
                p1 = self.partition(G, r.randint(1, 3))
                p2 = self.partition(self.all_glyphs, r.randint(1, 3))
                cells = [(a, b) for a in range(len(p1)) for b in range(len(p2))]
                r.shuffle(cells)
                for a, b in cells[: n - ng]:
                    rules.append({"t": "pos2", "first": p1[a], "second": p2[b], "value": self.value(0.8), "cls": True, "enum": False})
        elif typ == "posctx":
            for _ in range(n):
                rules.append(self.sibling(rules, self.ctx_rule(True, named_ok)))
        elif typ in MARK_TYPES:
            classes = sorted(self.prog["markclasses"])
            anchor = lambda: [r.randint(-100, 600), r.randint(-200, 800)]  # noqa: E731
            class_marks = {g for c in classes for gl, _a in self.prog["markclasses"][c] for g in gl}
            if typ == "markbase":
                pool = [g for g in G if g not in class_marks]
            elif typ == "markmark":
                pool = list(self.marks)
            else:
                pool = list(self.ligs)
            used = set()
            for _ in range(n):
                cand = [g for g in pool if g not in used]
                if not cand:
                    break
                gl = r.sample(cand, min(len(cand), 1 if r.random() < 0.6 else 2))
                used.update(gl)
                if typ == "marklig":
                    comps = []
                    for _c in range(r.randint(1, 3)):
                        comps.append([[c, anchor()] for c in classes if r.random() < 0.7])
                    if not any(comps):
                        comps[0] = [[classes[0], anchor()]]
                    rules.append({"t": typ, "glyphs": gl, "comps": comps})
                else:
                    att = [[c, anchor()] for c in classes if r.random() < 0.8] or [[classes[0], anchor()]]
                    rules.append({"t": typ, "glyphs": gl, "att": att})
        return rules

    def sibling(self, rules, rule):
        """Feature files are written as families of rules that share a context and an action and differ in the
        marked glyph (`sub one' lookup OSF; ... sub two' lookup OSF;`): with some probability make `rule` a sibling
        of an earlier rule of the same lookup - same backtrack, lookahead and action, another (overlapping) input."""
        r = self.rng
        cands = [x for x in rules if not x.get("inline_lig") and len(x["input"]) == 1]
        if not cands or r.random() > 0.45 or rule.get("inline_lig"):
            return rule
        src = r.choice(cands)
        pool = self.letters[:7]
        inp = self.pick_set(pool)
        act = src["input"][0][1]
        if act and act[0] == "single":
            tgt = act[1][0][1]
            act = ["single", [[g, tgt] for g in inp["g"]]]
        out = {"t": src["t"], "back": [dict(x) for x in src["back"]], "input": [[inp, act]], "ahead": [dict(x) for x in src["ahead"]], "ignore": False}
        if src.get("ignore") or r.random() < 0.15 and src["t"] == "ctx":
            out["ignore"] = True
            out["input"] = [[inp, None]]
        return out

    def partition(self, pool, n):
        r = self.rng
        pool = list(pool)
        r.shuffle(pool)
        out = []
        for _ in range(n):
            k = r.randint(1, 3)
            part, pool = pool[:k], pool[k:]
            if part:
                out.append(sorted(part, key=self.prog["glyphs"].index))
        return out

    @staticmethod
    def expand(comps):
        out = [()]
        for c in comps:
            out = [o + (g,) for o in out for g in c]
        return out

    def ctx_rule(self, gpos, named_ok):
        r = self.rng
        G = self.letters
        pool = G[:7]
        nb, ni, na = r.choice([0, 0, 1, 2]), r.choice([1, 1, 2, 3]), r.choice([0, 0, 1, 2])
        back = [self.pick_set(pool) for _ in range(nb)]
        ahead = [self.pick_set(pool) for _ in range(na)]
        typ = "posctx" if gpos else "ctx"
        rule = {"t": typ, "back": back, "input": [], "ahead": ahead, "ignore": False}
        if not gpos and r.random() < 0.15:
            rule["ignore"] = True
            rule["input"] = [[self.pick_set(pool), None] for _ in range(ni)]
            return rule
        want = "gpos" if gpos else "gsub"
        names = [n for n, l in self.named.items() if l["kind"] == want and l["rules"][0]["t"] not in ("ctx", "posctx")] if named_ok else []
        if not gpos and r.random() < 0.2 and ni >= 2:
            # inline ligature: every input position marked, single glyphs
            rule["input"] = [[{"w": "g", "g": [r.choice(pool)]}, None] for _ in range(ni)]
            rule["inline_lig"] = r.choice(self.ligs or self.all_glyphs)
            return rule
        acted = False
        for i in range(ni):
            s = self.pick_set(pool)
            act = None
            if r.random() < 0.6 or (i == ni - 1 and not acted):
                if names and r.random() < 0.55:
                    act = ["lookup", r.choice(names)]
                elif gpos:
                    act = ["value", self.value()]
                else:
                    tgt = r.choice(self.all_glyphs)
                    if len(s["g"]) > 1 and r.random() < 0.5:
                        act = ["single", [[g, r.choice(self.all_glyphs)] for g in s["g"]]]
                    else:
                        act = ["single", [[g, tgt] for g in s["g"]]]
                acted = True
            rule["input"].append([s, act])
        return rule

    # ------------------------------------------------------------------ program
    def lookup(self, name, kind=None, named_ok=True):
        r = self.rng
        kind = kind or ("gpos" if r.random() < self.k["gpos"] else "gsub")
        types = GPOS_TYPES if kind == "gpos" else GSUB_TYPES
        w = [3, 1, 1, 3, 3] if kind == "gsub" else [2, 3, 2]
        typ = r.choices(types, w)[0]
        if typ in ("ctx", "posctx") and r.random() > self.k["ctx"] * 2:
            typ = types[0]
        if kind == "gpos" and self.prog.get("markclasses") and r.random() < 0.3:
            typ = r.choice(MARK_TYPES)
        rules = self.rules_of(typ, r.randint(1, self.k["max_rules"]), named_ok)
        if not rules:
            rules = self.rules_of("single" if kind == "gsub" else "pos1", 2)
        return {"name": name, "kind": kind, "flag": self.flag(), "rules": rules}

    def program(self):
        r = self.rng
        n = self.k["n_glyphs"]
        letters = [chr(ord("a") + i) for i in range(n)]
        nums = []
        if r.random() < 0.3:
            # numbered glyphs: classes over them are written as numeric ranges that cross a power of ten, with ends that share
            # their last digit (n09 - n19) or not (n08 - n13)
            nums = [f"n{k:02d}" for k in range(8, 22)]
            letters = letters + nums
        marks = ["m1", "m2", "m3"]
        ligs = ["l1", "l2"]
        glyphs = [".notdef"] + letters + marks + ligs
        self.prog = {"glyphs": glyphs, "gdef": None, "classes": {}, "langsys": [], "items": []}
        self.letters, self.marks, self.ligs = letters, marks, ligs
        self.all_glyphs = letters + marks + ligs
        self.mark_classes = []
        if r.random() < self.k["gdef"]:
            self.prog["gdef"] = {"base": letters[: n - 2], "lig": ligs, "mark": marks}
            # mark classes are disjoint: GDEF has one MarkAttachClassDef, overlapping MarkAttachmentType classes are an error
            pool = list(marks)
            r.shuffle(pool)
            for i in range(r.choice([0, 1, 2, 2])):
                k = 1 if i == 0 else r.randint(1, 2)
                part, pool = pool[:k], pool[k:]
                if not part:
                    break
                nm = f"MC{i}"
                self.prog["classes"][nm] = sorted(part, key=glyphs.index)
                self.mark_classes.append(nm)
        for i in range(r.randint(0, self.k["n_classes"])):
            self.prog["classes"][f"c{i}"] = sorted(r.sample(letters[:7], r.randint(2, 3)), key=glyphs.index)
        if nums:
            lo = r.randint(0, 3)
            self.prog["classes"]["nr"] = nums[lo:lo + 1 + r.choice([10, 10, 5, 8])]
        # mark classes for mark attachment positioning (each mark in at most one class)
        self.prog["markclasses"] = {}
        if self.prog["gdef"] and r.random() < 0.6:
            pool = list(marks)
            r.shuffle(pool)
            for i, nm in enumerate(["TOP", "BOT"][: r.randint(1, 2)]):
                k = r.randint(1, 2)
                part, pool = pool[:k], pool[k:]
                if not part:
                    break
                # one or two markClass statements per class (different anchors for different glyphs)
                stmts = [[[g], [r.randint(-50, 300), r.randint(-100, 700)]] for g in part] if r.random() < 0.5 else [[part, [r.randint(-50, 300), r.randint(-100, 700)]]]
                self.prog["markclasses"][nm] = stmts
        # language systems
        if r.random() < 0.85:
            ls = [["DFLT", "dflt"]]
            for s in r.sample(SCRIPTS, r.randint(0, 2)):
                ls.append([s, "dflt"])
                if r.random() < 0.5:
                    ls.append([s, r.choice(LANGS)])
            self.prog["langsys"] = ls
        self.named = {}
        for i in range(r.randint(0, self.k["n_named"])):
            l = self.lookup(f"L{i}")
            self.named[l["name"]] = l
            self.prog["items"].append(["lookup", l])
        tags = r.sample(FEATURES, r.randint(1, self.k["n_features"]))
        if r.random() < 0.2:
            tags.append(tags[0])  # a feature block opened twice
        nblock = 0
        for tag in tags:
            body = []
            nst = r.randint(1, 5)
            scripted = r.random() < self.k["scripts"]
            cur_script = None
            used_scripts, used_sl = set(), set()
            zero = {"ignore": [], "attach": None, "filter": None}
            cur_flag = zero
            in_language = False
            for si in range(nst):
                if scripted and si > 0 and in_language and r.random() < 0.35:
                    # the script restated after a language statement: back to that script's default language system
                    # (and the lookup flag is reset, as at every script statement)
                    body.append(["script", cur_script])
                    cur_flag = zero
                    in_language = False
                elif scripted and si > 0 and r.random() < 0.6:
                    free_langs = [l for l in LANGS if (cur_script, l) not in used_sl]
                    if cur_script is None or cur_script == "DFLT" or r.random() < 0.6 or not free_langs:
                        cands = [x for x in SCRIPTS + (["DFLT"] if cur_script is None else []) if x not in used_scripts]
                        if not cands:
                            continue
                        cur_script = r.choice(cands)
                        used_scripts.add(cur_script)
                        body.append(["script", cur_script])
                        in_language = False
                        cur_flag = zero  # the specification resets the lookup flag at a script statement
                        if r.random() < 0.3:
                            body.append(["language", "dflt", True])
                    else:
                        # (a script or language named twice in one feature block is outside what the specification settles)
                        lang = r.choice(free_langs)
                        used_sl.add((cur_script, lang))
                        body.append(["language", lang, r.random() < 0.6])
                        in_language = True
                choice = r.random()
                if choice < 0.2 and self.named:
                    body.append(["ref", r.choice(sorted(self.named))])
                elif choice < 0.35:
                    l = self.lookup(f"B{nblock}")
                    nblock += 1
                    body.append(["block", l])
                    self.named[l["name"]] = l
                    cur_flag = None  # whether the block's own lookupflag outlives the block is not settled: restate before loose rules
                else:
                    # the flag in force after a nested lookup block is not something the specification pins down:
                    # always restate it there
                    # (and a lookupflag statement that changes nothing may or may not start a new lookup: never emit one)
                    force_twin = len(self.mark_classes) >= 2 and r.random() < 0.3
                    if force_twin:
                        f = {"ignore": [], "attach": None, "filter": None}
                        f[r.choice(["filter", "attach"])] = r.choice(self.mark_classes)
                        if f != cur_flag:
                            body.append(["lookupflag", f])
                            cur_flag = f
                    elif r.random() < 0.35 or cur_flag is None:
                        f = self.flag()
                        if f != cur_flag:
                            body.append(["lookupflag", f])
                            cur_flag = f
                    l = self.lookup("_")
                    for rule in l["rules"]:
                        body.append(["rule", rule])
                    # flag twins: the same kind of rules again under a lookupflag that differs only in *which* mark class it
                    # names (UseMarkFilteringSet @A -> @B, MarkAttachmentType @A -> @B): a new lookup with its own filter
                    which = "filter" if cur_flag and cur_flag.get("filter") else "attach" if cur_flag and cur_flag.get("attach") else None
                    others = [c for c in self.mark_classes if which and c != cur_flag[which]]
                    if others and (force_twin or r.random() < 0.6):
                        f2 = dict(cur_flag)
                        f2[which] = r.choice(others)
                        t = l["rules"][0]["t"]
                        twins = self.rules_of(t, r.randint(1, 2), True) if t not in MARK_TYPES else []
                        if twins:
                            body.append(["lookupflag", f2])
                            cur_flag = f2
                            for rule in twins:
                                body.append(["rule", rule])
            self.prog["items"].append(["feature", tag, body])
        return self.prog


# ---------------------------------------------------------------------- text
def _next_name(a, b):
    """b is the glyph that follows a in a feature-file glyph range (a single letter or a run of digits differs by one)."""
    if len(a) == 1 and len(b) == 1 and a.isalpha() and b.isalpha() and a.isascii() and b.isascii():
        return ord(b) == ord(a) + 1 and a.islower() == b.islower()
    ma, mb = re.fullmatch(r"(\D*)(\d{1,3})", a), re.fullmatch(r"(\D*)(\d{1,3})", b)
    return bool(ma and mb and ma.group(1) == mb.group(1) and len(ma.group(2)) == len(mb.group(2)) and int(mb.group(2)) == int(ma.group(2)) + 1)


def w_members(members):
    """The members of a class, runs of consecutive names spelled as ranges (`a - d`, `m1 - m3`): the AST keeps the explicit
    list, so the compiler's range expansion is compared with it."""
    out, i = [], 0
    while i < len(members):
        j = i
        while j + 1 < len(members) and _next_name(members[j], members[j + 1]):
            j += 1
        if j > i and (j - i >= 2 or ord(members[j][-1]) % 2 == 0):
            out.append(f"{members[i]} - {members[j]}")
        else:
            out.extend(members[i:j + 1])
        i = j + 1
    return " ".join(out)


def w_set(s):
    if s["w"] == "g":
        return s["g"][0]
    if s["w"].startswith("@"):
        return s["w"]
    return "[" + w_members(s["g"]) + "]"


def w_value(v):
    if v[0] == 0 and v[1] == 0 and v[3] == 0:
        return str(v[2])
    return "<" + " ".join(str(x) for x in v) + ">"


def w_flag(f):
    parts = []
    names = {"base": "IgnoreBaseGlyphs", "lig": "IgnoreLigatures", "mark": "IgnoreMarks"}
    for k in ("base", "lig", "mark"):
        if k in f["ignore"]:
            parts.append(names[k])
    if f["attach"]:
        parts.append(f"MarkAttachmentType @{f['attach']}")
    if f["filter"]:
        parts.append(f"UseMarkFilteringSet @{f['filter']}")
    return "lookupflag " + (" ".join(parts) if parts else "0") + ";"


def w_rule(r):
    t = r["t"]
    if t == "single":
        m = r["map"]
        if r["form"] == "gg":
            return f"sub {m[0][0]} by {m[0][1]};"
        if r["form"] == "cg":
            return f"sub [{w_members([a for a, _ in m])}] by {m[0][1]};"
        return f"sub [{w_members([a for a, _ in m])}] by [{' '.join(b for _, b in m)}];"
    if t == "multi":
        return f"sub {r['from']} by {' '.join(r['to'])};"
    if t == "alt":
        return f"sub {r['from']} from [{' '.join(r['to'])}];"
    if t == "lig":
        return "sub " + " ".join(c[0] if len(c) == 1 else "[" + " ".join(c) + "]" for c in r["comps"]) + f" by {r['to']};"
    if t in ("ctx", "posctx"):
        kw = "pos" if t == "posctx" else "sub"
        parts = [w_set(s) for s in r["back"]]
        tail = ""
        for s, act in r["input"]:
            p = w_set(s) + "'"
            if act and act[0] == "lookup":
                p += f" lookup {act[1]}"
            elif act and act[0] == "value":
                p += " " + w_value(act[1])
            parts.append(p)
        parts += [w_set(s) for s in r["ahead"]]
        if r.get("ignore"):
            return f"ignore {kw} " + " ".join(parts) + ";"
        if r.get("inline_lig"):
            tail = f" by {r['inline_lig']}"
        else:
            singles = [(s, act) for s, act in r["input"] if act and act[0] == "single"]
            if singles:
                # the inline single form allows one marked position with a substitution
                s, act = singles[0]
                tg = [b for _, b in act[1]]
                tail = " by " + (tg[0] if len(set(tg)) == 1 else "[" + " ".join(tg) + "]")
        return f"{kw} " + " ".join(parts) + tail + ";"
    if t in ("markbase", "markmark"):
        g = r["glyphs"]
        gs = g[0] if len(g) == 1 else "[" + " ".join(g) + "]"
        kw = "base" if t == "markbase" else "mark"
        return f"pos {kw} {gs} " + " ".join(f"<anchor {a[0]} {a[1]}> mark @{c}" for c, a in r["att"]) + ";"
    if t == "marklig":
        g = r["glyphs"]
        gs = g[0] if len(g) == 1 else "[" + " ".join(g) + "]"
        comps = []
        for comp in r["comps"]:
            comps.append(" ".join(f"<anchor {a[0]} {a[1]}> mark @{c}" for c, a in comp) if comp else "<anchor NULL>")
        return f"pos ligature {gs} " + " ligComponent ".join(comps) + ";"
    if t == "pos1":
        g = r["glyphs"]
        return f"pos {g[0] if len(g) == 1 else '[' + ' '.join(g) + ']'} {w_value(r['value'])};"
    if t == "pos2":
        a = r["first"][0] if len(r["first"]) == 1 and not r["cls"] else "[" + " ".join(r["first"]) + "]"
        b = r["second"][0] if len(r["second"]) == 1 and not r["cls"] and not r["enum"] else "[" + " ".join(r["second"]) + "]"
        return ("enum " if r["enum"] else "") + f"pos {a} {b} {w_value(r['value'])};"
    raise ValueError(t)


def w_lookup(l, indent="  "):
    out = [f"{indent}lookup {l['name']} {{"]
    out.append(f"{indent}  {w_flag(l['flag'])}")
    out += [f"{indent}  {w_rule(r)}" for r in l["rules"]]
    out.append(f"{indent}}} {l['name']};")
    return out


def emit(prog):
    L = []
    for s, l in prog["langsys"]:
        L.append(f"languagesystem {s} {l.strip()};")
    for name, members in prog["classes"].items():
        L.append(f"@{name} = [{w_members(members)}];")
    for name, stmts in prog.get("markclasses", {}).items():
        for gl, a in stmts:
            gs = gl[0] if len(gl) == 1 else "[" + " ".join(gl) + "]"
            L.append(f"markClass {gs} <anchor {a[0]} {a[1]}> @{name};")
    if prog["gdef"]:
        g = prog["gdef"]
        L.append("table GDEF {")
        L.append(f"  GlyphClassDef [{' '.join(g['base'])}], [{' '.join(g['lig'])}], [{' '.join(g['mark'])}], ;")
        L.append("} GDEF;")
    for item in prog["items"]:
        if item[0] == "lookup":
            L += w_lookup(item[1], "")
        else:
            _, tag, body = item
            L.append(f"feature {tag} {{")
            for st in body:
                if st[0] == "script":
                    L.append(f"  script {st[1]};")
                elif st[0] == "language":
                    L.append(f"  language {st[1].strip()}{'' if st[2] else ' exclude_dflt'};")
                elif st[0] == "lookupflag":
                    L.append("  " + w_flag(st[1]))
                elif st[0] == "rule":
                    L.append("  " + w_rule(st[1]))
                elif st[0] == "ref":
                    L.append(f"  lookup {st[1]};")
                elif st[0] == "block":
                    L += w_lookup(st[1])
            L.append(f"}} {tag};")
    return "\n".join(L) + "\n"


def sanitize(prog):
    """Make the AST expressible: an inline single substitution is allowed on one marked position only, and
    contextual rules with inline actions cannot also call lookups (the feature-file syntax has no such form)."""
    def fix(rule):
        if rule["t"] == "ctx" and not rule.get("ignore") and not rule.get("inline_lig"):
            idx = [i for i, (_, a) in enumerate(rule["input"]) if a and a[0] == "single"]
            if idx:
                # `sub x a' y by b` : exactly one marked glyph; the other input positions become context
                i = idx[0]
                rule["back"] = rule["back"] + [s for s, _ in rule["input"][:i]]
                rule["ahead"] = [s for s, _ in rule["input"][i + 1:]] + rule["ahead"]
                rule["input"] = [rule["input"][i]]
        if rule["t"] == "posctx":
            kinds = {a[0] for _, a in rule["input"] if a}
            if kinds == {"lookup", "value"}:
                for pair in rule["input"]:
                    if pair[1] and pair[1][0] == "lookup":
                        pair[1] = None
    for item in prog["items"]:
        if item[0] == "lookup":
            for r in item[1]["rules"]:
                fix(r)
        else:
            for st in item[2]:
                if st[0] == "rule":
                    fix(st[1])
                elif st[0] == "block":
                    for r in st[1]["rules"]:
                        fix(r)
    return prog


def make(rng, knobs=None):
    g = Gen(rng, knobs)
    p = sanitize(g.program())
    return p, emit(p)
