"""C03 - outlines at every master location reproduce that master's drawing (own gvar + IUP evaluator)."""
from . import srccheck

OPTS = [(), (), ("--keep-direction",), ("--no-production-names",), ("--flatten-components",), ("--prefer-simple-glyphs=false",)]
RULE = ("generated variable sources (1-3 axes; on-axis, corner, intermediate and sparse layer masters; per-glyph sparse masters; simple and composite "
        "glyphs; vertical metrics) compiled by the CLI; every glyph is instantiated at every one of its master locations with an independent gvar "
        "tuple-scalar + IUP evaluator and compared point by point with the rounded master (bound 0.5 + 0.5 x sum of active tuple scalars; default exact, "
        "correspondence discovered by matching the default outline exactly); non-trivial = compared points whose master value differs from the default")


def run(tier):
    return srccheck.run_prop("C03", tier, 36, 400, OPTS, None, "c03_points_with_delta", RULE)


def replay(path):
    return srccheck.replay_prop("C03", path)
