"""C01 - repeatable builds.

Each cell (source, option set) is compiled K times in separate processes; run k uses forced hash
seed k (LD_PRELOAD getrandom shim), a thread count from {1,2,3,4,8,16}, seeded scheduler jitter and
tracing (for the launch-order signature).  Oracle: one sha256 per cell."""
import hashlib
import json
import os
import shutil

from . import common
from .common import Check, compile_font, pmap, table_diff

OPTION_SETS = [
    (),
    ("--flatten-components",),
    ("--decompose-components",),
    ("--decompose-transformed-components",),
    ("--no-production-names",),
    ("--keep-direction",),
    ("--skip-features",),
    ("--emit-ir",),
    ("--prefer-simple-glyphs=false",),
    ("--flatten-components", "--decompose-transformed-components"),
]
THREADS = [1, 2, 3, 4, 8, 16]


def launch_signature(trace):
    h = hashlib.sha1()
    n = 0
    try:
        for line in open(trace):
            if '"t":"launch"' in line:
                h.update(json.loads(line)["job"]["id"].encode())
                h.update(b"\n")
                n += 1
    except OSError:
        return None, 0
    return h.hexdigest()[:16], n


def run_cell(fontc, chk, cell_id, source, opts, K, seed0, keep=False):
    wd = os.path.join(chk.scratch, f"cell{cell_id}")
    runs = []
    for k in range(K):
        hs = seed0 * 1000 + k + 1
        th = THREADS[(k + seed0) % len(THREADS)] if k else 1  # run 0 is the exact-replay configuration
        trace = os.path.join(wd, f"r{k}.trace")
        os.makedirs(wd, exist_ok=True)
        r, out, cmd = compile_font(fontc, source, wd, args=opts, name=f"r{k}", hash_seed=hs, threads=th,
                                   jitter=f"{hs}:1500", trace=trace, timeout=600)
        sig, nl = launch_signature(trace)
        ok = r.rc == 0 and os.path.exists(out)
        runs.append({"k": k, "hash_seed": hs, "threads": th, "rc": r.rc, "timed_out": r.timed_out,
                     "sha": common.sha256_file(out) if ok else None, "launch_sig": sig, "launches": nl,
                     "font": out, "cmd": cmd, "stderr": r.stderr[-500:] if not ok else ""})
        if os.path.exists(trace):
            os.remove(trace)
        shutil.rmtree(os.path.join(wd, f"r{k}.build"), ignore_errors=True)
    return {"cell": cell_id, "source": source, "opts": list(opts), "runs": runs, "wd": wd}


def judge(chk, res):
    runs = res["runs"]
    if any(r["timed_out"] for r in runs):
        chk.inconc({"cell": res["source"], "why": "wall-clock watchdog"})
        return None
    shas = {r["sha"] for r in runs}
    rcs = {r["rc"] for r in runs}
    rel = os.path.relpath(res["source"], common.TESTDATA) if res["source"].startswith(common.TESTDATA) else res["source"]
    if len(rcs) > 1 or (len(shas) > 1):
        a = runs[0]
        b = next(r for r in runs if r["sha"] != a["sha"] or r["rc"] != a["rc"])
        diff = table_diff(a["font"], b["font"]) if a["sha"] and b["sha"] else ["<one run failed>"]
        chk.violation(
            f"nondeterministic:{rel}:{' '.join(res['opts'])}",
            f"{len(shas)} distinct outputs over {len(runs)} runs; tables differing: {diff}; "
            f"run{a['k']} (seed {a['hash_seed']}, {a['threads']} thr, rc {a['rc']}) vs run{b['k']} (seed {b['hash_seed']}, {b['threads']} thr, rc {b['rc']}) {b['stderr'][-200:]}",
            replay={"source": res["source"], "opts": res["opts"], "runs": [{k: r[k] for k in ("hash_seed", "threads", "sha", "rc")} for r in runs]},
            files=[a["font"], b["font"]] if a["sha"] and b["sha"] else [])
        return False
    if None in shas:
        # consistently failing: not a C01 matter (corpus sources are expected to compile; C15/C02 look at that)
        chk.inconc({"cell": rel, "opts": res["opts"], "why": f"does not compile (rc {sorted(rcs)})", "stderr": runs[0]["stderr"][-200:]})
        return None
    return True


def cells_for(chk, tier):
    from . import gensrc
    srcs = [common.corpus_path(s) for s in common.corpus()]
    rng = chk.rng
    cells = []
    if tier == "quick":
        pick = rng.sample(srcs, 22)
        for s in pick:
            cells.append((s, ()))
        for s in rng.sample(srcs, 12):
            cells.append((s, rng.choice(OPTION_SETS[1:])))
        gen = gensrc.sources_for("C01", chk, n=16)
    else:
        for s in srcs:
            cells.append((s, ()))
            for o in rng.sample(OPTION_SETS[1:], 4):
                cells.append((s, o))
        gen = gensrc.sources_for("C01", chk, n=64)
    for g in gen:
        cells.append((g, ()))
        fam = os.path.basename(os.path.dirname(g))
        # switch on the option the family's mechanism depends on
        if "mixedglyphs" in fam:
            cells.append((g, ("--prefer-simple-glyphs=false",)))
        elif "nested" in fam or "nonexport" in fam:
            cells.append((g, rng.choice([("--flatten-components",), ("--decompose-transformed-components",), ("--flatten-components", "--decompose-transformed-components")])))
        else:
            cells.append((g, rng.choice(OPTION_SETS[1:])))
    return cells


def run(tier):
    chk = Check("C01", tier)
    fontc = common.build("rel", ("fontc",))["fontc"]
    common.ensure_shim()
    K = 4 if tier == "quick" else 12
    cells = cells_for(chk, tier)
    results = pmap(lambda ic: run_cell(fontc, chk, ic[0], ic[1][0], ic[1][1], K, chk.seed), list(enumerate(cells)),
                   workers=8)
    nontrivial = 0
    seeds, threads, sigs = set(), set(), set()
    samples = []
    for res in results:
        v = judge(chk, res)
        chk.coverage["evaluations"] += len(res["runs"])
        rs = res["runs"]
        cs = {r["launch_sig"] for r in rs if r["launch_sig"]}
        if v is not None and len({r["hash_seed"] for r in rs}) >= 2 and len({r["threads"] for r in rs}) >= 2 and len(cs) >= 2:
            nontrivial += 1
        seeds |= {r["hash_seed"] for r in rs}
        threads |= {r["threads"] for r in rs}
        sigs |= cs
        if len(samples) < 6:
            samples.append({"source": os.path.relpath(res["source"], common.REPO) if res["source"].startswith(common.REPO) else res["source"],
                            "opts": res["opts"], "sha": rs[0]["sha"],
                            "runs": [{"hash_seed": r["hash_seed"], "threads": r["threads"], "launch_sig": r["launch_sig"]} for r in rs]})
        shutil.rmtree(res["wd"], ignore_errors=True)
    chk.coverage.update({
        "distinct_nontrivial": nontrivial,
        "rule": "cell = (source, option set) compiled K times in separate processes with forced hash seeds / thread counts / "
                "jitter; evaluations = compiles; a cell is non-trivial if its runs covered >=2 hash seeds, >=2 thread counts "
                "and >=2 distinct observed launch orders and all runs compiled",
        "samples": samples, "cells": len(cells), "runs_per_cell": K,
        "distinct_hash_seeds": len(seeds), "thread_counts": sorted(threads), "distinct_launch_orders": len(sigs),
    })
    chk.assumptions += ["hash seeds are forced through an LD_PRELOAD getrandom shim; exact only for 1-thread runs",
                        "SOURCE_DATE_EPOCH fixed; the compiler version string is constant for one build"]
    return chk.finish()


def replay(path):
    rec = json.load(open(path))
    rp = rec["replay"]
    chk = Check("C01", "quick")
    fontc = common.build("rel", ("fontc",))["fontc"]
    res = run_cell(fontc, chk, 0, rp["source"], tuple(rp["opts"]), max(4, len(rp["runs"])), chk.seed)
    judge(chk, res)
    chk.coverage.update({"evaluations": len(res["runs"]), "distinct_nontrivial": 2, "rule": "replay", "samples": [rp]})
    return chk.finish()
