"""End-to-end half of C16: generated designspace <rules> compiled by the real CLI; the font's FeatureVariations
(condition sets, feature table substitutions, lookups) evaluated by the independent interpreter at sampled
normalized locations against the source rule semantics (voracle c16, harness/src/eval/rules.rs)."""
import json
import os
import re
import shutil
import subprocess

from . import gensrc
from .common import compile_font, pmap


def run(chk, bins, tier):
    n = 24 if tier == "quick" else 500
    srcs = gensrc.sources_for("C16", chk, n)
    tot = {}
    compiled = 0

    def one(i_src):
        i, src = i_src
        wd = os.path.join(chk.scratch, f"r{i}")
        r, out, cmd = compile_font(bins["fontc"], src, wd, args=("--no-production-names",), threads=2, timeout=600)
        res = {"source": src, "rc": r.rc, "timed_out": r.timed_out, "cmd": cmd, "wd": wd, "font": out, "stderr": r.stderr[-200:]}
        site = re.search(r"panicked at (?:/repo/)?([\w./-]+:\d+)", r.stderr or "")
        res["panic_site"] = site.group(1) if site else None
        if r.rc == 0 and os.path.exists(out):
            man = os.path.join(os.path.dirname(src), "manifest.json")
            p = subprocess.run([bins["voracle"], "c16", man, out], capture_output=True, text=True, timeout=600)
            try:
                res["oracle"] = json.loads(p.stdout)
            except Exception:  # noqa
                res["oracle_error"] = (p.stderr or p.stdout)[-300:]
        return res
    for res in pmap(one, list(enumerate(srcs))):
        rel = os.path.basename(os.path.dirname(res["source"]))
        if res["timed_out"]:
            chk.inconc({"source": rel, "why": "watchdog"})
        elif res["rc"] != 0 and res["panic_site"]:
            # a generated rule list is valid input: a compile that dies of a panic has no font to apply the rules
            chk.violation(f"e2e:compile-failed:{res['panic_site']}", f"{rel}: a valid rule list ends in a panic at {res['panic_site']}",
                          replay={"source": res["source"], "cmd": res["cmd"]}, files=[os.path.dirname(res["source"])])
        elif res["rc"] != 0:
            chk.inconc({"source": rel, "why": f"rc {res['rc']}", "stderr": res["stderr"]})
        elif "oracle" not in res or res["oracle"].get("oracle_panicked"):
            chk.inconc({"source": rel, "why": "oracle failed: " + str(res.get("oracle_error", "panicked"))[:200]})
        else:
            compiled += 1
            for msg in res["oracle"]["violations"]:
                chk.violation("e2e:substitution-differs-from-rules", f"{rel}: {msg}", replay={"source": res["source"], "cmd": res["cmd"]},
                              files=[os.path.dirname(res["source"]), res["font"]])
            for k, v in res["oracle"]["stats"].items():
                tot[k] = tot.get(k, 0) + int(v)
        shutil.rmtree(res["wd"], ignore_errors=True)
    tot["sources_compiled"] = compiled
    return tot
