"""Run `vapi` monitors in rlimited child processes and merge their JSON results."""
import json

from . import common


def run_children(vapi, cmd, seeds, n, hash_seed=False, cpu_s=600, as_bytes=4 << 30, timeout=1800):
    def one(seed):
        env = common.fontc_env(hash_seed=seed if hash_seed else 0)
        r = common.run([vapi, cmd, str(seed), str(n)], env=env, timeout=timeout, cpu_s=cpu_s, as_bytes=as_bytes)
        if r.timed_out:
            return seed, None, "watchdog"
        if r.rc != 0:
            return seed, None, f"child died rc={r.rc} sig={r.sig}: {r.stderr[-300:]}"
        try:
            return seed, json.loads(r.stdout.strip().splitlines()[-1]), None
        except Exception as e:  # noqa
            return seed, None, f"unparseable output: {e}"
    return common.pmap(one, seeds)
