"""C17 - header and summary fields agree with the tables they summarise (recomputed from the emitted font)."""
import json
import os
import re
import shutil
import subprocess

from . import common, gensrc
from .common import Check, compile_font, pmap

OPTS = [(), (), ("--flatten-components",), ("--decompose-components",), ("--decompose-transformed-components",), ("--keep-direction",), ("--prefer-simple-glyphs=false",)]


def sets_ranges_explicitly(source):
    """Sources that state their Unicode / code-page ranges themselves are not asserted against the cmap."""
    paths = [source]
    if os.path.isdir(source):
        paths = [os.path.join(source, "fontinfo.plist")]
    elif source.endswith(".designspace"):
        d = os.path.dirname(source)
        for fn in set(re.findall(r'filename="([^"]+)"', open(source, errors="replace").read())):
            paths.append(os.path.join(d, fn, "fontinfo.plist"))
    for p in paths:
        try:
            t = open(p, errors="replace").read()
        except OSError:
            continue
        if re.search(r"unicodeRanges|openTypeOS2UnicodeRanges|Unicode Ranges", t):
            return True
    return False


def sig_of(e):
    return re.sub(r"-?\d+(\.\d+)?", "N", re.sub(r"BBox \{[^}]*\}", "BBox", e))[:80]


def run(tier):
    chk = Check("C17", tier)
    bins = common.build("rel", ("fontc", "voracle"))
    rng = chk.rng
    nq = tier == "quick"
    srcs = [common.corpus_path(s) for s in common.corpus()]
    cases = [(s, rng.choice(OPTS)) for s in (rng.sample(srcs, 60) if nq else srcs + srcs)]
    cases += [(s, rng.choice(OPTS)) for s in gensrc.sources_for("C17", chk, 40 if nq else 500)]

    def comp(ic):
        i, (s, o) = ic
        wd = os.path.join(chk.scratch, f"f{i}")
        r, out, cmd = compile_font(bins["fontc"], s, wd, args=o, threads=2, timeout=600)
        return {"source": s, "opts": list(o), "rc": r.rc, "timed_out": r.timed_out, "font": out if r.rc == 0 and os.path.exists(out) else None, "wd": wd, "cmd": cmd}
    results = pmap(comp, list(enumerate(cases)))
    args = []
    for r in results:
        if r["font"]:
            args.append(("noranges:" if sets_ranges_explicitly(r["source"]) else "") + r["font"])
    reports = {}
    for i in range(0, len(args), 200):
        p = subprocess.run([bins["voracle"], "c17"] + args[i:i + 200], capture_output=True, text=True, timeout=1200)
        for line in p.stdout.splitlines():
            try:
                rr = json.loads(line)
                reports[rr["font"]] = rr
            except json.JSONDecodeError:
                pass
    fields = nontrivial = 0
    samples = []
    for r in results:
        chk.coverage["evaluations"] += 1
        rel = os.path.relpath(r["source"], common.TESTDATA) if r["source"].startswith(common.TESTDATA) else os.path.basename(os.path.dirname(r["source"]))
        if r["timed_out"] or not r["font"]:
            chk.inconc({"source": rel, "why": "watchdog" if r["timed_out"] else f"rc {r['rc']}"})
            continue
        rep = reports.get(r["font"])
        if rep is None or rep.get("oracle_panicked"):
            chk.inconc({"source": rel, "why": "oracle failed"})
            continue
        fields += rep["fields_checked"]
        nontrivial += rep["nontrivial"]
        for e in rep["errors"][:6]:
            chk.violation(f"c17:{sig_of(e)}", f"{rel} {r['opts']}: {e}", replay={"source": r["source"], "opts": r["opts"], "cmd": r["cmd"]}, files=[r["font"]])
        if len(samples) < 4:
            samples.append({"source": rel, "opts": r["opts"], "fields_recomputed": rep["fields_checked"], "nontrivial_fields": rep["nontrivial"]})
    for r in results:
        shutil.rmtree(r["wd"], ignore_errors=True)
    chk.coverage.update({
        "distinct_nontrivial": nontrivial,
        "rule": "every font of the workload (corpus + generated incl. a special family: trailing equal-advance runs and all-equal advances, zero advances, "
                "empty glyphs, negative side bearings, nested mirrored / rotated composites, supplementary codepoints, vertical metrics) has its head bbox, "
                "per-glyph boxes (resolved through components), hhea / vhea maxima, minima, extents and long-metric counts, maxp maxima, loca format, OS/2 "
                "average width, first/last char index and a committed table of unambiguous Unicode-range bits recomputed from glyf/hmtx/vmtx/cmap; "
                "non-trivial = composites resolved + trimmed metric runs + supplementary-plane fonts",
        "samples": samples, "fields_recomputed": fields,
    })
    chk.assumptions += ["usMaxContext and code-page bits are not recomputed here; Unicode-range bits only for the committed unambiguous table, and not for sources that set them explicitly"]
    return chk.finish()


def replay(path):
    rec = json.load(open(path))
    rp = rec["replay"]
    chk = Check("C17", "quick")
    bins = common.build("rel", ("fontc", "voracle"))
    r, out, cmd = compile_font(bins["fontc"], rp["source"], os.path.join(chk.scratch, "r"), args=rp["opts"], threads=2)
    if r.rc == 0:
        p = subprocess.run([bins["voracle"], "c17", out], capture_output=True, text=True)
        for e in json.loads(p.stdout).get("errors", []):
            chk.violation(f"c17:{sig_of(e)}", e, replay=rp)
    chk.coverage.update({"evaluations": 1, "distinct_nontrivial": 2, "rule": "replay", "samples": [rp]})
    return chk.finish()
