"""C13 - the feature-file front end is total and lossless.

Inputs (corpus files, their mutations, grammar-generated programs, UTF-8 soup, include graphs) go through
fea_rs::parse::parse_root with an in-memory resolver inside rlimited, journaling child processes
(`vapi c13`).  The child writes the index of the input it is about to parse to a journal first, so a
death by memory / CPU limit / abort is attributed to that input and the run continues after it."""
import glob
import json
import os
import random
import re
import signal

from . import common
from .common import Check

AS_BYTES = 2 << 30
GLYPHS = ["a", "b", "c", "d", "e", "f", "i", "l", "o", "u", "x", "y", "z", "A", "B", "T", "V", "a.alt", "f_i", "f_f_i", "acute", "grave", "acutecomb",
          "a-b", "a-b-c", "x-y", "one", "two", "zero", "period", "space", "cid00001", "uni0301", ".notdef", "é", "a.sc", "b.sc", "c.sc", "d.sc"]
TOK = re.compile(r"\s+|[A-Za-z_.@\\][A-Za-z0-9_.\-]*|\d+|<[^>\n]{0,20}>|\"[^\"\n]{0,30}\"|#[^\n]*|.", re.S)
KEYWORDS = ["feature", "lookup", "sub", "substitute", "by", "from", "pos", "position", "ignore", "markClass", "anchorDef", "valueRecordDef", "languagesystem",
            "script", "language", "lookupflag", "table", "include", "anon", "anonymous", "enum", "rsub", "cursive", "base", "mark", "ligature", "ligComponent",
            "useExtension", "name", "nameid", "parameters", "sizemenuname", "featureNames", "cvParameters", "conditionset", "variation", "@CLS", "<anchor 1 2>",
            "<NULL>", "[", "]", "{", "}", ";", "-", "'", ",", "(", ")", "<", ">", "=", "\\1", "\\1-\\5", "a-b", "a - b", "[a-z]", "[a - z]", "0", "-1", "1.5", "0x10", "(wght=100:10)"]


def corpus_files():
    root = os.path.join(common.REPO, "fea-rs", "test-data")
    out = []
    for p in sorted(glob.glob(root + "/**/*.fea", recursive=True)):
        try:
            t = open(p, encoding="utf-8").read()
        except (UnicodeDecodeError, OSError):
            continue
        if len(t) < 60000:
            out.append((os.path.relpath(p, common.REPO), t))
    return out


def mutate(rng, text):
    toks = TOK.findall(text)
    if not toks:
        return text + rng.choice(KEYWORDS)
    for _ in range(rng.choice([1, 1, 2, 3, 5])):
        op = rng.randrange(11)
        i = rng.randrange(len(toks))
        if op == 0:
            del toks[i]
        elif op == 1:
            toks.insert(i, toks[i])
        elif op == 2:
            j = rng.randrange(len(toks))
            toks[i], toks[j] = toks[j], toks[i]
        elif op == 3:
            toks.insert(i, rng.choice(KEYWORDS))
        elif op == 4:
            toks[i] = rng.choice(KEYWORDS)
        elif op == 5:
            toks = toks[:i]  # truncate
        elif op == 6:
            toks.insert(i, rng.choice(["é", "́", "\U0001F600", "\x00", "﻿", "\r", "\t", " ", "ß"]))
        elif op == 9:
            # a number spelled differently
            idx = [k for k, t in enumerate(toks) if t.isdigit()]
            if idx:
                toks[rng.choice(idx)] = rng.choice(NUMBERS)
        elif op == 10:
            # string contents: escapes next to multi-byte characters
            idx = [k for k, t in enumerate(toks) if len(t) >= 2 and t[0] == '"' and t[-1] == '"']
            if idx:
                toks[rng.choice(idx)] = fea_string(rng)
            else:
                toks.insert(i, glyphs_number_expr(rng))
        elif op == 7:
            # brace / semicolon damage
            idx = [k for k, t in enumerate(toks) if t in "{};[]()<>'"]
            if idx:
                k = rng.choice(idx)
                toks[k] = rng.choice(["", toks[k] * 2, rng.choice("{};[]()<>'")])
        else:
            toks.insert(i, rng.choice(GLYPHS))
        if not toks:
            toks = [rng.choice(KEYWORDS)]
    return "".join(toks)


def gen_program(rng):
    """A small grammar of valid FEA."""
    gs = [g for g in GLYPHS if re.fullmatch(r"[A-Za-z_.]+", g) and g != ".notdef"]

    def g():
        return rng.choice(gs)

    def cls():
        return "[" + " ".join(g() for _ in range(rng.randint(1, 4))) + "]"
    L = []
    if rng.random() < 0.7:
        L.append("languagesystem DFLT dflt;")
        if rng.random() < 0.5:
            L.append("languagesystem latn dflt;")
    for i in range(rng.randint(0, 3)):
        L.append(f"@C{i} = {cls()};")
    if rng.random() < 0.3:
        L.append(f"markClass {cls()} <anchor {rng.randint(-500, 500)} {rng.randint(-500, 500)}> @M0;")
    for i in range(rng.randint(1, 4)):
        tag = rng.choice(["liga", "kern", "calt", "ss01", "smcp", "mark", "test"])
        body = []
        for _ in range(rng.randint(1, 5)):
            k = rng.randrange(8)
            if k == 0:
                body.append(f"sub {g()} by {g()};")
            elif k == 1:
                body.append(f"sub {g()} {g()} by {g()};")
            elif k == 2:
                body.append(f"sub {g()} from {cls()};")
            elif k == 3:
                body.append(f"pos {g()} {g()} {rng.randint(-100, 100)};")
            elif k == 4:
                body.append(f"sub {g()}' {g()} by {g()};")
            elif k == 5:
                body.append(f"pos {g()} <{rng.randint(-9, 9)} 0 {rng.randint(-50, 50)} 0>;")
            elif k == 6:
                body.append(f"lookupflag {rng.choice(['IgnoreMarks', 'RightToLeft', '0', 'IgnoreLigatures IgnoreMarks'])};")
            else:
                body.append(f"ignore sub {g()} {g()}';")
        L.append(f"feature {tag} {{\n  " + "\n  ".join(body) + f"\n}} {tag};")
    return "\n".join(L) + "\n"


NUMBERS = ["12.5", "1.55", "0.5", "-0", "00012", ".5", "5.", "1.", "0x", "0x1F", "0xFFFFFFFFFF", "99999999999999999999", "-32769", "65536", "1.0.0", "1e5", "007.250", "3.14159"]
STR_PARTS = ["A", "z", " ", "é", "ß", "\U0001F600", "\\00e9", "\\00E9", "\\000z", "\\zzzz", "\\e9", "\\0", "\\", "\\00", "\\d83d\\de00", "\\ffff", "\\0000", "́", "\t", "'", "\u00a0", "\u3000"]


def fea_string(rng):
    return '"' + "".join(rng.choice(STR_PARTS) for _ in range(rng.randint(0, 6))) + '"'


def glyphs_number_expr(rng):
    """Glyphs-app number values: `$name` and `${expr}` with idents, ints, floats, - / * + and odd spacing."""
    if rng.random() < 0.3:
        return "$" + rng.choice(["padding", "x", "a-b", "_v1", "x.y"])
    atoms = ["x", "padding", "a-b", "x-12.5", "x/2", "12.5", "1.55", "3", "-4", "x-1", "y-0.5-z", "x--1", "1.", ".5", "x_1", "12.5-x", "0.25/x"]
    ops = ["-", "/", "*", "+", " - ", " / ", " * ", " + ", " "]
    parts = [rng.choice(atoms)]
    for _ in range(rng.randint(0, 3)):
        parts += [rng.choice(ops), rng.choice(atoms)]
    return "${" + "".join(parts) + "}"


def gen_rare(rng):
    """Valid-looking use of the less travelled parts of the grammar: tables with strings and numbers of every
    spelling, name records with escapes next to multi-byte characters, Glyphs-app number expressions, variable
    values, include paths with unusual padding, glyph ranges with runs of hyphens."""
    L = []
    ws = ["", " ", "\t", "\u00a0", "\u3000", "\u2003", "\u2028", "\x0b", "\r"]
    for _ in range(rng.randint(1, 5)):
        k = rng.randrange(12)
        num = lambda: rng.choice(NUMBERS + [str(rng.randint(-1000, 1000))] * 4)  # noqa
        if k == 0:
            recs = []
            for _ in range(rng.randint(1, 3)):
                ids = rng.choice(["1", "3 1 0x409", "1 0 0", "3", "256", num(), "1 1", "3 1"])
                recs.append(f"  nameid {rng.choice(['1', '2', '9', '256', num()])} {ids if rng.random() < 0.5 else ''} {fea_string(rng)};")
            L.append("table name {\n" + "\n".join(recs) + "\n} name;")
        elif k == 1:
            L.append(f"feature kern {{\n  pos a b {glyphs_number_expr(rng)};\n  pos [a b] c <{glyphs_number_expr(rng)} 0 {glyphs_number_expr(rng)} 0>;\n}} kern;")
        elif k == 2:
            L.append(f"feature kern {{\n  pos a b (wght={num()}:{num()} wght={num()}:{num()});\n  pos a c <0 0 (wght={num()}:{num()}) 0>;\n}} kern;")
        elif k == 3:
            L.append(f"table head {{ FontRevision {num()}; }} head;\ntable hhea {{ CaretOffset {num()}; Ascender {num()}; Descender {num()}; LineGap {num()}; }} hhea;")
        elif k == 4:
            L.append(f"table OS/2 {{\n  FSType {num()};\n  Panose {' '.join(num() for _ in range(rng.choice([10, 10, 9, 11])))};\n  UnicodeRange {num()} {num()};\n  CodePageRange {num()};\n  Vendor {fea_string(rng)};\n  XHeight {num()}; WeightClass {num()};\n}} OS/2;")
        elif k == 5:
            L.append(f"table STAT {{\n  ElidedFallbackName {{ name {fea_string(rng)}; name 3 1 0x411 {fea_string(rng)}; }};\n  DesignAxis wght {num()} {{ name {fea_string(rng)}; }};\n  AxisValue {{ location wght {num()}; name {fea_string(rng)}; flag ElidableAxisValueName; }};\n  AxisValue {{ location wght {num()} {num()} - {num()}; name {fea_string(rng)}; }};\n}} STAT;")
        elif k == 6:
            L.append(f"table GDEF {{\n  GlyphClassDef [a b], [f_i], [acutecomb], ;\n  Attach a {num()} {num()};\n  LigatureCaretByPos f_i {num()};\n  LigatureCaretByIndex f_f_i {num()} {num()};\n}} GDEF;")
        elif k == 7:
            L.append(f"table BASE {{\n  HorizAxis.BaseTagList ideo romn {rng.choice(['', 'hang', 'ideo-1', 'ab'])};\n  HorizAxis.BaseScriptList latn romn {num()} {num()}, cyrl romn {num()} {num()};\n}} BASE;")
        elif k == 8:
            L.append(f"feature ss01 {{\n  featureNames {{ name {fea_string(rng)}; name 3 1 0x409 {fea_string(rng)}; }};\n  sub a by a.alt;\n}} ss01;\nfeature cv01 {{\n  cvParameters {{ FeatUILabelNameID {{ name {fea_string(rng)}; }}; Character {num()}; Character 0x41; }};\n  sub a by a.alt;\n}} cv01;")
        elif k == 9:
            L.append(f"feature size {{\n  parameters {num()} {num()} {num()} {num()};\n  sizemenuname {fea_string(rng)};\n  sizemenuname 3 1 0x409 {fea_string(rng)};\n}} size;")
        elif k == 10:
            L.append(f"include({rng.choice(ws)}{rng.choice(['other.fea', 'a b.fea', 'é.fea', ''])}{rng.choice(ws)});")
        else:
            a, b = rng.choice(["a", "i", "a.sc", "a-b", "x"]), rng.choice(["d", "a.sc", "d.sc", "z", "a-b-c"])
            L.append(f"@R = [{a}{rng.choice(['-', '--', ' - ', '---', ' -', '- '])}{b}];\nfeature test {{ sub [{a}{rng.choice(['-', '--'])}{b}] by a; }} test;")
    return "\n".join(L) + "\n"


def soup(rng):
    n = rng.randint(0, 300)
    alphabet = [rng.choice(KEYWORDS + GLYPHS + [" ", " ", "\n"]) for _ in range(40)] + ["é", "́", "\U0001F600", "\x00", "\\", "\"", "#"]
    if rng.random() < 0.3:
        return "".join(chr(rng.choice([rng.randint(1, 0x7F), rng.randint(0x80, 0x2FF), rng.randint(0x3000, 0xFFFD), rng.randint(0x10000, 0x10FFFF)])) for _ in range(n)).encode("utf-8", "ignore").decode("utf-8", "ignore")
    return " ".join(rng.choice(alphabet) for _ in range(n))


def include_graph(rng, idx):
    kind = idx % 7
    files = {}
    expect = None

    def inc(names, inside=False):
        body = "".join(f"include({n});\n" for n in names)
        return f"feature liga {{\n{body}}} liga;\n" if inside else body
    if kind == 0:  # random digraph
        n = rng.randint(2, 12)
        names = [f"f{i}.fea" for i in range(n)]
        edges = {a: [b for b in names if rng.random() < 1.5 / n] for a in names}
        files = {a: inc(bs, rng.random() < 0.2) + f"# {a}\n" for a, bs in edges.items()}
        files["root.fea"] = inc(rng.sample(names, rng.randint(1, min(3, n)))) + "languagesystem DFLT dflt;\n"
        edges["root.fea"] = re.findall(r"include\(([^)]+)\)", files["root.fea"])
        # is a cycle reachable from the root?
        color = {}

        def dfs(u):
            color[u] = 1
            for v in edges.get(u, []):
                if color.get(v) == 1 or (color.get(v) is None and dfs(v)):
                    return True
            color[u] = 2
            return False
        expect = True if dfs("root.fea") else None
    elif kind == 1:  # non-root self loop
        files = {"root.fea": "include(a.fea);\n", "a.fea": "include(a.fea);\n"}
        expect = True
    elif kind == 2:  # root self loop
        files = {"root.fea": "include(root.fea);\n"}
        expect = True
    elif kind == 3:  # cycle re-entered from two parents
        files = {"root.fea": "include(a.fea);\ninclude(b.fea);\n", "a.fea": "include(c.fea);\n", "b.fea": "include(c.fea);\n", "c.fea": "include(d.fea);\n", "d.fea": "include(c.fea);\n"}
        expect = True
    elif kind == 4:  # chains around the depth limit
        depth = rng.choice([48, 49, 50, 51, 52, 55])
        files = {f"c{k}.fea": f"include(c{k + 1}.fea);\n" for k in range(depth)}
        files[f"c{depth}.fea"] = "# end\n"
        files["root.fea"] = "include(c0.fea);\n"
        expect = True if depth >= 52 else None
    elif kind == 5:  # diamond without a cycle, include inside a feature block
        files = {"root.fea": "include(a.fea);\nfeature liga { include(b.fea); } liga;\n", "a.fea": "include(c.fea);\n", "b.fea": "include(c.fea);\n", "c.fea": "@X = [a b];\n"}
    else:  # missing file
        files = {"root.fea": "include(nothere.fea);\nlanguagesystem DFLT dflt;\n"}
    return files, expect


def make_inputs(chk, tier):
    rng = chk.rng
    corpus = corpus_files()
    n = 80000 if tier == "quick" else 1000000
    cases = []
    for name, text in corpus:
        cases.append({"kind": "corpus", "files": {"root.fea": text}, "glyphs": GLYPHS if rng.random() < 0.5 else None, "origin": name})
    while len(cases) < n:
        r = rng.random()
        if r < 0.55:
            name, text = rng.choice(corpus)
            if len(text) > 6000:
                continue
            cases.append({"kind": "mutation", "files": {"root.fea": mutate(rng, text)}, "glyphs": GLYPHS if rng.random() < 0.5 else None, "origin": name})
        elif r < 0.64:
            p = gen_rare(rng)
            kind = "rare-constructs"
            if rng.random() < 0.4:
                p = mutate(rng, p)
                kind = "rare-constructs+mutation"
            cases.append({"kind": kind, "files": {"root.fea": p}, "glyphs": GLYPHS if rng.random() < 0.8 else None})
        elif r < 0.78:
            p = gen_program(rng)
            if rng.random() < 0.5:
                p = mutate(rng, p)
                kind = "grammar+mutation"
            else:
                kind = "grammar"
            cases.append({"kind": kind, "files": {"root.fea": p}, "glyphs": GLYPHS if rng.random() < 0.7 else None})
        elif r < 0.93:
            cases.append({"kind": "soup", "files": {"root.fea": soup(rng)}, "glyphs": GLYPHS if rng.random() < 0.5 else None})
        else:
            files, expect = include_graph(rng, len(cases))
            c = {"kind": "include-graph", "files": files, "glyphs": GLYPHS if rng.random() < 0.5 else None}
            if expect is not None:
                c["expect_cycle_report"] = expect
            cases.append(c)
    for i, c in enumerate(cases):
        c["id"] = i
        c["root"] = "root.fea"
    return cases


def run_batch(vapi, cases, workdir, tag, cpu_s, env_extra=None, as_bytes=AS_BYTES):
    """Run one shard to completion, respawning after every death. Returns (results by id, deaths)."""
    os.makedirs(workdir, exist_ok=True)
    inp = os.path.join(workdir, f"{tag}.in.jsonl")
    jr = os.path.join(workdir, f"{tag}.journal")
    out = os.path.join(workdir, f"{tag}.out.jsonl")
    with open(inp, "w") as f:
        for c in cases:
            f.write(json.dumps(c) + "\n")
    for p in (jr, out):
        if os.path.exists(p):
            os.remove(p)
    start = 0
    deaths = []
    watchdog = []
    while start < len(cases):
        r = common.run([vapi, "c13", inp, jr, out, str(start)], env=common.fontc_env(extra=env_extra), timeout=max(600, cpu_s * 2), cpu_s=cpu_s, as_bytes=as_bytes)
        j = open(jr).read().strip() if os.path.exists(jr) else ""
        if j == "done" and r.rc == 0:
            break
        try:
            at = int(j)
        except ValueError:
            at = start
        if r.timed_out:
            watchdog.append(at)
        else:
            why = "CPU-time limit" if (r.cpu_limited or r.sig == signal.SIGXCPU) else (f"signal {signal.Signals(r.sig).name}" if r.sig else f"exit {r.rc}")
            if "memory allocation" in r.stderr or "out of memory" in r.stderr.lower():
                why = "allocation failure under the 2 GiB address-space limit (runaway allocation)"
            m = re.search(r"ERROR: AddressSanitizer: ([^\n]*)", r.stderr)
            if m:
                frame = re.search(r"#\d+ 0x[0-9a-f]+ in (\S+) (/repo/\S+)", r.stderr)
                why = "AddressSanitizer: " + m.group(1).split(" on address")[0] + (f" in {frame.group(1)} {frame.group(2)}" if frame else "")
            deaths.append((at, why, r.stderr[-200:]))
        start = at + 1
    results = {}
    if os.path.exists(out):
        for line in open(out):
            try:
                rr = json.loads(line)
                results[rr["id"]] = rr
            except json.JSONDecodeError:
                pass
    return results, deaths, watchdog


def minimise(vapi, case, workdir, still_fails):
    """ddmin over lines then tokens of root.fea (bounded number of child runs)."""
    text = case["files"]["root.fea"]
    budget = [40]

    def fails(t):
        if budget[0] <= 0:
            return False
        budget[0] -= 1
        c = dict(case, files=dict(case["files"], **{"root.fea": t}), id=0)
        return still_fails(c)
    for splitter in (lambda t: t.splitlines(True), lambda t: TOK.findall(t)):
        parts = splitter(text)
        n = 2
        while len(parts) >= 2 and budget[0] > 0:
            chunk = max(1, len(parts) // n)
            reduced = False
            for i in range(0, len(parts), chunk):
                cand = parts[:i] + parts[i + chunk:]
                if cand and fails("".join(cand)):
                    parts = cand
                    n = max(n - 1, 2)
                    reduced = True
                    break
            if not reduced:
                if chunk == 1:
                    break
                n = min(len(parts), n * 2)
        text = "".join(parts)
    return text


def classify_problem(p, case=None):
    m = re.match(r"(parser panicked|validate panicked on an error-free tree|rendering the \w+ diagnostics panicked) at (\S+?:\d+)", p)
    if m:
        # the exact panic site: a known finding for one site must not hide a panic at another one in the same file
        return f"{m.group(1)} at {m.group(2)}"
    p = re.sub(r"\d+", "N", p)
    if p.startswith("cyclic / too deep") and case is not None:
        nested = sum(1 for t in case["files"].values() if re.search(r"feature\s+\w+\s*\{[^}]*include", t))
        return "cycle-not-reported" + (":through-feature-scope-include" if nested >= 2 else "")
    parts = p.split(": ")
    head = ": ".join(parts[:2]) if parts[0] == "split route" and len(parts) > 1 else parts[0]
    return head[:140]


def run(tier):
    chk = Check("C13", tier)
    vapi = common.build("rel", ("vapi",))["vapi"]
    cases = make_inputs(chk, tier)
    shards = 16
    per = (len(cases) + shards - 1) // shards
    jobs = [(k, cases[k * per:(k + 1) * per]) for k in range(shards) if cases[k * per:(k + 1) * per]]
    wd = os.path.join(chk.scratch, "c13")
    cpu = 240 if tier == "quick" else 3600

    def work(job):
        k, cs = job
        return k, cs, run_batch(vapi, cs, wd, f"s{k}", cpu)
    stats = {"by_kind": {}, "with_diagnostics": 0, "error_free": 0, "validated": 0, "cycles_reported": 0, "tokens": 0, "child_deaths": 0,
             "split": {"files_split": 0, "include_files": 0, "feature_scope_items": 0, "nested_includes": 0, "with_validation_diagnostics": 0,
                       "validation_diagnostics_compared": 0, "diagnostics_at_included_file_start": 0}}
    nontrivial = set()
    samples = []
    for k, cs, (results, deaths, watchdog) in common.pmap(work, jobs, workers=shards):
        for at in watchdog:
            chk.inconc({"shard": k, "input": at, "why": "wall-clock watchdog"})
        for at, why, tail in deaths:
            stats["child_deaths"] += 1
            c = cs[at] if at < len(cs) else None
            if c is None:
                chk.inconc({"shard": k, "why": f"death outside the shard: {why}"})
                continue

            def still_fails(cand, _k=k):
                rr, dd, ww = run_batch(vapi, [cand], wd, f"min{_k}", 20)
                return bool(dd)
            small = minimise(vapi, c, wd, still_fails) if c["kind"] != "include-graph" else None
            w = dict(c)
            if small is not None:
                w = dict(c, minimised=small)
            first = (small or "").strip().split(" ")[0][:20] if small else c["kind"]
            chk.violation(f"parser-death:{why.split('(')[0].strip()}:{c['kind'] if c['kind']=='include-graph' else 'text'}", f"parser did not survive input {c['id']} ({c['kind']}): {why}; minimised: {small!r}"[:500], replay=w)
        for c in cs:
            chk.coverage["evaluations"] += 1
            stats["by_kind"][c["kind"]] = stats["by_kind"].get(c["kind"], 0) + 1
            r = results.get(c["id"])
            if r is None:
                continue
            info = r.get("info", {})
            stats["tokens"] += info.get("tokens", 0)
            if info.get("diagnostics"):
                stats["with_diagnostics"] += 1
                nontrivial.add(hash(json.dumps(c["files"], sort_keys=True)))
            if info.get("has_errors") is False:
                stats["error_free"] += 1
            if "validation_errors" in info:
                stats["validated"] += 1
            if info.get("cycle_reported"):
                stats["cycles_reported"] += 1
            if info.get("split_files"):
                sp = stats["split"]
                sp["files_split"] += 1
                sp["include_files"] += info["split_files"] - 1
                sp["feature_scope_items"] += info.get("split_feature_items", 0)
                sp["nested_includes"] += info.get("split_nested", 0)
                if info.get("split_validation_diagnostics"):
                    sp["with_validation_diagnostics"] += 1
                    sp["validation_diagnostics_compared"] += info["split_validation_diagnostics"]
                sp["diagnostics_at_included_file_start"] += info.get("split_diagnostics_at_file_start", 0)
            for p in r.get("problems", []):
                rc = dict(c, split_files_text=info["split_files_text"]) if p.startswith("split route") and "split_files_text" in info else c
                chk.violation(f"parser:{classify_problem(p, c)}", f"input {c['id']} ({c['kind']}, from {c.get('origin', '-')}): {p}"[:700], replay=rc)
            if len(samples) < 5 and c["kind"] in ("mutation", "include-graph", "soup") and info.get("diagnostics"):
                samples.append({"kind": c["kind"], "text": c["files"]["root.fea"][:200], "diagnostics": info.get("diagnostics"), "tokens": info.get("tokens")})
    san = {}
    if tier == "thorough":
        san = sanitizer_slices(chk, cases, wd)
    chk.coverage.update({
        "sanitizers": san,
        "distinct_nontrivial": len(nontrivial),
        "rule": "inputs: every fea-rs/test-data file, token-level mutations of them, grammar-generated programs (and their mutations), UTF-8/token soup, "
                "include graphs (random digraphs, self loops, re-entered cycles, chains of 48-55, missing files), with and without a glyph map whose names "
                "collide with range syntax; each parsed via parse_root in a child with RLIMIT_AS 2 GiB / RLIMIT_CPU. Checked: no panic, no death, token "
                "texts concatenate to the input, diagnostic ranges inside their source on char boundaries, display() does not panic, cycles / depth>50 "
                "reported, validate() total on error-free trees. Split route: every single file that parses without errors under a glyph map is also cut at "
                "statement boundaries into an include graph (top-level statements alone in a file, runs with a nested include, items of feature blocks); the "
                "assembled tree must spell the flat text and every parse / validation diagnostic must come back with the same message at the file and "
                "offset its position was moved to. non-trivial = distinct input with at least one diagnostic.",
        "samples": samples, **stats,
    })
    return chk.finish()


def sanitizer_slices(chk, cases, wd):
    """The same driver and oracles under AddressSanitizer (a slice of the inputs) and under Miri (short inputs): this
    is where the repository's `unsafe` code (token_set transmute, the MaybeUninit token stack, glyph_range) runs."""
    from . import sanitize
    out = {}
    rng = chk.rng
    # ---- AddressSanitizer
    try:
        avapi = sanitize.build("asan", bins=("vapi",))["vapi"]
        pick = rng.sample(cases, min(len(cases), 64000))
        shards = 16
        per = (len(pick) + shards - 1) // shards
        env = {"ASAN_OPTIONS": "halt_on_error=1 abort_on_error=0 detect_leaks=0 allocator_may_return_null=1 max_allocation_size_mb=2048"}

        def work(k):
            cs = pick[k * per:(k + 1) * per]
            return cs, run_batch(avapi, cs, wd, f"asan{k}", 3600, env_extra=env, as_bytes=None)
        n_run = reports = 0
        for cs, (results, deaths, watchdog) in common.pmap(work, list(range(shards)), workers=shards):
            n_run += len(results)
            for at, why, tail in deaths:
                if at < len(cs) and why.startswith("AddressSanitizer"):
                    reports += 1
                    chk.violation("parser:asan:" + re.sub(r"0x[0-9a-f]+|\d+", "N", why)[:100], f"{why} on input {cs[at]['id']} ({cs[at]['kind']})", replay=cs[at])
                elif at < len(cs):
                    chk.inconc({"why": f"asan child died without a report: {why}", "input": cs[at]["id"]})
            for at in watchdog:
                chk.inconc({"why": "asan watchdog"})
        out["asan"] = {"status": "ran", "inputs_parsed": n_run, "reports": reports}
    except common.Inconclusive as e:
        out["asan"] = {"status": f"not run: {e}"}
        chk.inconc({"why": "asan flavour could not be built"})
    # ---- Miri: short inputs only (the interpreter costs ~0.1-1 s per input)
    small = [c for c in cases if c["kind"] != "include-graph" and sum(len(v) for v in c["files"].values()) < 400]
    pick = rng.sample(small, min(len(small), 16 * 40))
    shards = 16
    per = (len(pick) + shards - 1) // shards

    def mwork(k):
        cs = pick[k * per:(k + 1) * per]
        os.makedirs(wd, exist_ok=True)
        inp, jr, outp = (os.path.join(wd, f"miri{k}.{x}") for x in ("in.jsonl", "journal", "out.jsonl"))
        with open(inp, "w") as f:
            for c in cs:
                f.write(json.dumps(c) + "\n")
        for p in (jr, outp):
            if os.path.exists(p):
                os.remove(p)
        st, detail = sanitize.miri_run("vapi", ["c13", inp, jr, outp, "0"], seed=k, timeout=3000)
        done = sum(1 for _ in open(outp)) if os.path.exists(outp) else 0
        at = open(jr).read().strip() if os.path.exists(jr) else ""
        return k, cs, st, detail, done, at
    first = [mwork(0)]  # compiles the harness for Miri once
    res = first + common.pmap(mwork, list(range(1, shards)), workers=shards)
    info = {"status": "ran", "inputs_parsed": 0, "ub_reports": 0, "unsupported": 0}
    for k, cs, st, detail, done, at in res:
        info["inputs_parsed"] += done
        if st == "ub":
            info["ub_reports"] += 1
            c = cs[int(at)] if at.isdigit() and int(at) < len(cs) else None
            chk.violation("parser:miri:" + re.sub(r"\d+", "N", detail)[:100], f"Miri: {detail} while parsing input {c['id'] if c else '?'}", replay=c or {})
        elif st != "ok":
            info["unsupported"] += 1
            chk.inconc({"why": f"miri shard {k}: {st}", "detail": detail[:200]})
    out["miri"] = info
    return out


def replay(path):
    rec = json.load(open(path))
    c = rec["replay"]
    chk = Check("C13", "quick")
    vapi = common.build("rel", ("vapi",))["vapi"]
    c = dict(c, id=0)
    results, deaths, watchdog = run_batch(vapi, [c], os.path.join(chk.scratch, "r"), "r", 30)
    for at, why, tail in deaths:
        chk.violation(rec["signature"], f"replayed: {why}", replay=c)
    for r in results.values():
        for p in r.get("problems", []):
            chk.violation(rec["signature"], p, replay=c)
    chk.coverage.update({"evaluations": 1, "distinct_nontrivial": 2, "rule": "replay", "samples": [{"text": c["files"].get("root.fea", "")[:200]}]})
    return chk.finish()
