"""Shared machinery of the /verif checks: builds, process running, verdicts, evidence.

Verdicts are three-valued per case: held / violated / inconclusive.  Exit codes of a check:
0 = no unlisted violation and enough conclusive non-trivial cases, 1 = violation (with a
`VIOLATION property=<id> replay=<path>` line), 2 = inconclusive run (build failed, nothing
observed); exit 2 never prints a VIOLATION line.
"""
import concurrent.futures
import hashlib
import json
import os
import random
import resource
import shutil
import signal
import subprocess
import sys
import time

ROOT = os.path.dirname(os.path.dirname(os.path.abspath(__file__)))
REPO = os.environ.get("VERIF_REPO", "/repo")
OUT = os.path.join(ROOT, "out")
TARGET = os.path.join(ROOT, "target")
HARNESS = os.path.join(ROOT, "harness")
TESTDATA = os.path.join(REPO, "resources", "testdata")
SHIM = os.path.join(OUT, "shim", "getrandom_shim.so")
EPOCH = "1700000000"
NCPU = os.cpu_count() or 4


class Inconclusive(Exception):
    pass


def log(*a):
    print(*a, file=sys.stderr, flush=True)


def sha256_file(path):
    h = hashlib.sha256()
    with open(path, "rb") as f:
        for chunk in iter(lambda: f.read(1 << 20), b""):
            h.update(chunk)
    return h.hexdigest()


def seed_from_env():
    try:
        return int(os.environ.get("VERIF_SEED", "1"))
    except ValueError:
        return 1


# ----------------------------------------------------------------------------- builds

_FLAVOURS = {
    # name: (toolchain, cargo args, extra env, output dir)
    "rel": (None, ["--release"], {}, "release"),
    "dbg": (None, [], {}, "debug"),
}


def base_env():
    env = dict(os.environ)
    env["CARGO_NET_OFFLINE"] = "true"
    env.pop("RUSTFLAGS", None)  # the harness .cargo/config.toml carries --cfg fontc_verif
    env.pop("CARGO_TARGET_DIR", None)
    env.pop("RUST_BACKTRACE", None)
    return env


def ensure_lockfile():
    """The harness resolves with /repo's lock file so the same dependency versions are built."""
    dst = os.path.join(HARNESS, "Cargo.lock")
    if not os.path.exists(dst):
        shutil.copy(os.path.join(REPO, "Cargo.lock"), dst)


def build(flavour="rel", bins=("fontc",), quiet=True):
    """Incrementally (re)build from /repo's working tree; returns {bin: path}.

    A tree that does not build is inconclusive, never a violation."""
    ensure_lockfile()
    toolchain, args, extra, outdir = _FLAVOURS[flavour]
    cmd = ["cargo"] + ([f"+{toolchain}"] if toolchain else []) + ["build", "--offline"] + args
    for b in bins:
        if b == "fontc":
            cmd += ["-p", "fontc", "--bin", "fontc"]
    hb = [b for b in bins if b != "fontc"]
    if hb:
        cmd += ["-p", "vharness"] + sum((["--bin", b] for b in hb), [])
    env = base_env()
    env.update(extra)
    t0 = time.time()
    p = subprocess.run(cmd, cwd=HARNESS, env=env, stdout=subprocess.PIPE, stderr=subprocess.STDOUT, text=True)
    if p.returncode != 0:
        log(p.stdout[-4000:])
        raise Inconclusive(f"build failed ({flavour}): {' '.join(cmd)}")
    if not quiet or time.time() - t0 > 5:
        log(f"[build {flavour}] {time.time()-t0:.1f}s")
    d = os.path.join(TARGET, outdir)
    return {b: os.path.join(d, b) for b in bins}


def ensure_shim():
    src = os.path.join(ROOT, "shim", "getrandom_shim.c")
    if not os.path.exists(SHIM) or os.path.getmtime(SHIM) < os.path.getmtime(src):
        os.makedirs(os.path.dirname(SHIM), exist_ok=True)
        p = subprocess.run(["gcc", "-O2", "-shared", "-fPIC", "-o", SHIM, src], capture_output=True, text=True)
        if p.returncode != 0:
            raise Inconclusive("cannot build getrandom shim: " + p.stderr)
    return SHIM


# ----------------------------------------------------------------------------- processes


class Result:
    __slots__ = ("rc", "sig", "stdout", "stderr", "wall", "timed_out", "cpu_limited")

    def __init__(self, rc, sig, stdout, stderr, wall, timed_out, cpu_limited=False):
        self.rc, self.sig, self.stdout, self.stderr = rc, sig, stdout, stderr
        self.wall, self.timed_out, self.cpu_limited = wall, timed_out, cpu_limited

    def __repr__(self):
        return f"Result(rc={self.rc}, sig={self.sig}, timed_out={self.timed_out}, wall={self.wall:.2f})"


def run(cmd, env=None, cwd=None, timeout=300, cpu_s=None, as_bytes=None, stdin=None, text=True):
    """Run a subprocess with optional rlimits.  A wall-clock timeout is *inconclusive* (timed_out)."""

    def pre():
        os.setsid()
        resource.setrlimit(resource.RLIMIT_CORE, (0, 0))
        if cpu_s:
            resource.setrlimit(resource.RLIMIT_CPU, (cpu_s, cpu_s + 5))
        if as_bytes:
            resource.setrlimit(resource.RLIMIT_AS, (as_bytes, as_bytes))

    t0 = time.time()
    p = subprocess.Popen(cmd, env=env, cwd=cwd, stdout=subprocess.PIPE, stderr=subprocess.PIPE,
                         stdin=subprocess.PIPE if stdin is not None else subprocess.DEVNULL,
                         preexec_fn=pre, text=text)
    timed_out = False
    try:
        out, err = p.communicate(input=stdin, timeout=timeout)
    except subprocess.TimeoutExpired:
        timed_out = True
        try:
            os.killpg(p.pid, signal.SIGKILL)
        except ProcessLookupError:
            pass
        out, err = p.communicate()
    rc = p.returncode
    sig = -rc if rc is not None and rc < 0 else 0
    cpu_limited = sig in (signal.SIGXCPU,) or (sig == signal.SIGKILL and not timed_out and cpu_s is not None)
    return Result(rc, sig, out, err, time.time() - t0, timed_out, cpu_limited)


def fontc_env(hash_seed=0, threads=None, jitter=None, trace=None, epoch=EPOCH, extra=None):
    env = {
        "PATH": os.environ.get("PATH", "/usr/bin:/bin"),
        "HOME": os.environ.get("HOME", "/root"),
        "SOURCE_DATE_EPOCH": epoch,
        "RUST_LOG": "error",
    }
    if hash_seed:
        env["VERIF_HASH_SEED"] = str(hash_seed)
        env["LD_PRELOAD"] = ensure_shim()
    if threads:
        env["RAYON_NUM_THREADS"] = str(threads)
    if jitter:
        env["FONTC_VERIF_JITTER"] = jitter
    if trace:
        env["FONTC_VERIF_TRACE"] = trace
    if extra:
        env.update(extra)
    return env


def compile_font(fontc, source, workdir, args=(), name="font", emit_ir=False, timeout=300,
                 cpu_s=None, as_bytes=None, **envkw):
    """Run the real CLI.  Output goes to <workdir>/<name>.ttf, build dir <workdir>/<name>.build."""
    os.makedirs(workdir, exist_ok=True)
    out = os.path.join(workdir, name + ".ttf")
    bdir = os.path.join(workdir, name + ".build")
    if os.path.exists(out):
        os.remove(out)
    cmd = [fontc, source, "-o", out, "--build-dir", bdir] + list(args)
    if source.endswith(".glyphs") and os.path.exists(os.path.join(os.path.dirname(source), "manifest.json")):
        # generated Glyphs sources: open-corner erasure (a Glyphs-native, shape-changing feature) is outside every property's oracle
        cmd.append("--erase-open-corners=false")
    if emit_ir:
        cmd.append("--emit-ir")
    r = run(cmd, env=fontc_env(**envkw), timeout=timeout, cpu_s=cpu_s, as_bytes=as_bytes)
    return r, out, cmd


def pmap(fn, items, workers=None):
    """Map over items on a thread pool (cases are subprocess-bound); preserves order."""
    workers = workers or NCPU
    with concurrent.futures.ThreadPoolExecutor(max_workers=workers) as ex:
        return list(ex.map(fn, items))


# ----------------------------------------------------------------------------- corpus


def corpus():
    path = os.path.join(ROOT, "corpus", "valid_fixtures.txt")
    out = []
    for line in open(path):
        line = line.strip()
        if line and not line.startswith("#"):
            out.append(line)
    return out


def corpus_path(rel):
    return os.path.join(TESTDATA, rel)


# ----------------------------------------------------------------------------- findings, evidence, verdict


def known_findings(prop):
    path = os.path.join(ROOT, "known_findings.json")
    if not os.path.exists(path):
        return []
    data = json.load(open(path))
    return [f for f in data.get("findings", []) if f.get("property") == prop and f.get("status") == "known"]


class Check:
    """Collects the outcome of one check run and turns it into evidence + exit code."""

    def __init__(self, prop, tier, level="exploration"):
        self.prop, self.tier, self.level = prop, tier, level
        self.seed = seed_from_env()
        self.t0 = time.time()
        self.violations = []  # (signature, description, replay_path)
        self.known_hits = {}  # finding id -> count
        self.inconclusive = []
        self.coverage = {"evaluations": 0, "distinct_nontrivial": 0, "rule": "", "samples": []}
        self.assumptions = []
        self.known = known_findings(prop)
        self.replay_dir = os.path.join(OUT, "replays", prop)
        self.scratch = os.path.join(OUT, "scratch", f"{prop}-{tier}")
        shutil.rmtree(self.scratch, ignore_errors=True)
        os.makedirs(self.scratch, exist_ok=True)
        os.makedirs(self.replay_dir, exist_ok=True)
        for old in os.listdir(self.replay_dir):  # replays of an earlier run with the same tier and seed
            if old.startswith(f"{tier}-{self.seed}-"):
                q = os.path.join(self.replay_dir, old)
                shutil.rmtree(q, ignore_errors=True) if os.path.isdir(q) else os.remove(q)
        self.rng = random.Random(f"{prop}:{self.seed}")

    # -- reporting
    def match_known(self, signature):
        for f in self.known:
            if f["signature"] == signature or (f.get("signature_prefix") and signature.startswith(f["signature_prefix"])):
                return f
        return None

    def violation(self, signature, description, replay=None, files=()):
        """Report a violation.  `signature` is the exact key known findings are matched on."""
        f = self.match_known(signature)
        if f is not None:
            self.known_hits[f["id"]] = self.known_hits.get(f["id"], 0) + 1
            return False
        n = len(self.violations)
        path = os.path.join(self.replay_dir, f"{self.tier}-{self.seed}-{n}.json")
        rec = {"property": self.prop, "signature": signature, "description": description,
               "tier": self.tier, "seed": self.seed, "replay": replay or {}}
        d = path[:-5] + ".files"
        for src in files:
            if src and os.path.exists(src):
                os.makedirs(d, exist_ok=True)
                dst = os.path.join(d, os.path.basename(src.rstrip("/")))
                if os.path.isdir(src):
                    shutil.copytree(src, dst, dirs_exist_ok=True)
                else:
                    shutil.copy(src, dst)
        rec["files_dir"] = d if files else None
        with open(path, "w") as fh:
            json.dump(rec, fh, indent=1, default=str)
        self.violations.append((signature, description, path))
        if len(self.violations) <= 20:
            log(f"  violation: {signature}: {description[:300]}")
        return True

    def inconc(self, what):
        self.inconclusive.append(what)

    def finish(self, min_nontrivial=2, extra=None):
        cov = self.coverage
        cov["inconclusive_cases"] = len(self.inconclusive)
        if self.inconclusive:
            cov["inconclusive_samples"] = self.inconclusive[:5]
        cov["known_finding_hits"] = self.known_hits
        if extra:
            cov.update(extra)
        ev = {
            "property_id": self.prop, "tier": self.tier, "seed": self.seed, "level": self.level,
            "coverage": cov, "assumptions": self.assumptions,
            "wall_s": round(time.time() - self.t0, 2), "violations": len(self.violations),
        }
        os.makedirs(os.path.join(ROOT, "evidence"), exist_ok=True)
        with open(os.path.join(ROOT, "evidence", f"{self.prop}.json"), "w") as fh:
            json.dump(ev, fh, indent=1, default=str)
        for f in self.known:
            if self.known_hits.get(f["id"]):
                print(f"KNOWN-FINDING: property={self.prop} {f['id']}: {f['what']} (seen {self.known_hits[f['id']]}x this run)")
        seen = set()
        for sig, desc, path in self.violations:
            if sig in seen:
                continue
            seen.add(sig)
            print(f"VIOLATION property={self.prop} replay={path}")
            print(f"  {sig}: {desc[:400]}")
        shutil.rmtree(self.scratch, ignore_errors=True)
        if self.violations:
            log(f"[{self.prop}] {len(self.violations)} violation(s), {cov['evaluations']} evaluations")
            return 1
        if cov["evaluations"] < 1 or cov["distinct_nontrivial"] < min_nontrivial:
            log(f"[{self.prop}] INCONCLUSIVE: evaluations={cov['evaluations']} distinct_nontrivial={cov['distinct_nontrivial']} (<{min_nontrivial}); inconclusive={len(self.inconclusive)}")
            return 2
        log(f"[{self.prop}] held on {cov['evaluations']} evaluations ({cov['distinct_nontrivial']} distinct non-trivial), "
            f"{len(self.inconclusive)} inconclusive, {round(time.time()-self.t0,1)}s")
        return 0


def table_diff(a, b):
    """Names of sfnt tables whose bytes differ between two font files (witness for byte mismatches)."""
    import struct

    def tables(path):
        d = open(path, "rb").read()
        n = struct.unpack(">H", d[4:6])[0]
        out = {}
        for i in range(n):
            tag, _cs, off, ln = struct.unpack(">4sIII", d[12 + 16 * i: 28 + 16 * i])
            out[tag.decode("latin1")] = d[off:off + ln]
        return out
    try:
        ta, tb = tables(a), tables(b)
    except Exception as e:  # noqa
        return [f"<unparseable: {e}>"]
    return sorted(t for t in set(ta) | set(tb) if ta.get(t) != tb.get(t))
