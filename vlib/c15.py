"""C15 - bad input ends in a reported error, never a crash, hang or bogus font.

Fault enumeration: component-cycle shapes are enumerated exhaustively; the other structural
mutators (truncate / drop / duplicate / swap lines, extreme numbers, byte flips, missing and empty
files, FEA include loops, token soup) are sampled.  Each case is one `fontc` subprocess under
RLIMIT_AS / RLIMIT_CPU; the oracle is the exit status classification + the C05 walker on exit 0."""
import itertools
import json
import os
import random
import re
import shutil
import signal

from . import common
from .common import Check, pmap

CPU_S = 60
AS_BYTES = 8 << 30
OPTS = [(), ("--flatten-components",), ("--decompose-components",), ("--emit-ir",)]
SEEDS = ["wght_var.designspace", "static.designspace", "glyphs3/WghtVar.glyphs", "glyphs2/WghtVar.glyphs", "glyphs3/Component.glyphs",
         "glyphs2/Component.glyphs", "glyphs3/WghtVar.glyphspackage", "WghtVar-Regular.ufo", "designspace_from_glyphs/WghtVar.designspace",
         "glyphs3/IntermediateLayer.glyphs", "glyphs3/WghtVar_Anchors.glyphs", "glyphs2/KernImplicitAxes.glyphs", "fea_include.designspace",
         "glyphs3/PropagateAnchorsTest.glyphs", "dspace_rules/CustomFeatures.designspace", "glyphs3/COLRv1-simple.glyphs", "mov_xy.designspace",
         "glyphs3/BracketGlyphs.glyphs", "wght_var_sparse_kerning.designspace", "glyphs2/OpszWghtVar_AxisMappings.glyphs",
         "glyphs3/SmartComponents.glyphs", "HVVAR/SingleModel_Direct/SingleModelDirect.designspace", "glyphs3/MixedContourComponent.glyphs"]
EXTREME = ["0", "-1", "1e308", "-1e308", "nan", "inf", "65536", "-32769", "2147483648", "4294967296", "1e-320", "0.5", "99999999999999999999",
           "-0", "1e5", "32768", "65535", "16384", "0x10", ""]


def copy_source(src, dst_dir):
    """Copy a source (file or bundle) and, for a designspace, the UFOs it names; returns the new path."""
    os.makedirs(dst_dir, exist_ok=True)
    base = os.path.basename(src.rstrip("/"))
    dst = os.path.join(dst_dir, base)
    if os.path.isdir(src):
        shutil.copytree(src, dst)
        return dst
    shutil.copy(src, dst)
    text = open(src, errors="replace").read()
    sdir = os.path.dirname(src)
    if src.endswith(".designspace"):
        for fn in set(re.findall(r'filename="([^"]+)"', text)):
            p = os.path.normpath(os.path.join(sdir, fn))
            q = os.path.normpath(os.path.join(dst_dir, fn))
            if os.path.isdir(p) and not os.path.exists(q) and q.startswith(os.path.normpath(dst_dir)):
                shutil.copytree(p, q)
            elif os.path.isdir(p) and not q.startswith(os.path.normpath(dst_dir)):
                # designspace reaches outside its own directory ("../X.ufo"): rebuild the same relative layout
                os.makedirs(os.path.dirname(q), exist_ok=True)
                if not os.path.exists(q):
                    shutil.copytree(p, q)
    for inc in set(re.findall(r"include\s*\(\s*([^)]+?)\s*\)", text)):
        p = os.path.join(sdir, inc)
        if os.path.isfile(p):
            os.makedirs(os.path.dirname(os.path.join(dst_dir, inc)), exist_ok=True)
            shutil.copy(p, os.path.join(dst_dir, inc))
    return dst


def files_of(root):
    if os.path.isfile(root):
        out = [root]
        d = os.path.dirname(root)
        for r, _ds, fs in os.walk(d):
            for f in fs:
                p = os.path.join(r, f)
                if p != root:
                    out.append(p)
        return out
    return [os.path.join(r, f) for r, _ds, fs in os.walk(root) for f in fs]


def mutate_file(rng, path):
    """Apply one structural mutation to a file in place; returns a description."""
    try:
        data = open(path, "rb").read()
    except OSError:
        return "unreadable"
    kind = rng.choice(["truncate", "drop-line", "dup-line", "swap-lines", "number", "number", "byteflip", "empty", "delete", "drop-block",
                       "soup", "dup-block", "nul", "bom", "long-line"])
    lines = data.split(b"\n")
    if kind == "truncate" and data:
        cut = rng.randrange(len(data))
        open(path, "wb").write(data[:cut])
    elif kind == "drop-line" and len(lines) > 1:
        del lines[rng.randrange(len(lines))]
        open(path, "wb").write(b"\n".join(lines))
    elif kind == "dup-line" and lines:
        i = rng.randrange(len(lines))
        lines.insert(i, lines[i])
        open(path, "wb").write(b"\n".join(lines))
    elif kind == "swap-lines" and len(lines) > 2:
        i, j = rng.sample(range(len(lines)), 2)
        lines[i], lines[j] = lines[j], lines[i]
        open(path, "wb").write(b"\n".join(lines))
    elif kind == "number":
        nums = list(re.finditer(rb"-?\d+(?:\.\d+)?", data))
        if nums:
            m = rng.choice(nums)
            v = rng.choice(EXTREME).encode()
            open(path, "wb").write(data[:m.start()] + v + data[m.end():])
            kind = f"number {m.group(0).decode()}->{v.decode()}"
    elif kind == "byteflip" and data:
        b = bytearray(data)
        for _ in range(rng.randint(1, 4)):
            i = rng.randrange(len(b))
            b[i] ^= 1 << rng.randrange(8)
        open(path, "wb").write(bytes(b))
    elif kind == "empty":
        open(path, "wb").write(b"")
    elif kind == "delete":
        os.remove(path)
    elif kind in ("drop-block", "dup-block") and len(lines) > 6:
        i = rng.randrange(len(lines) - 3)
        j = min(len(lines), i + rng.randint(2, 12))
        if kind == "drop-block":
            del lines[i:j]
        else:
            lines[i:i] = lines[i:j]
        open(path, "wb").write(b"\n".join(lines))
    elif kind == "soup":
        toks = re.findall(rb"[A-Za-z_.@]+|\d+|\S", data) or [b"x"]
        out = b" ".join(rng.choice(toks) for _ in range(rng.randint(1, 400)))
        open(path, "wb").write(out)
    elif kind == "nul" and data:
        i = rng.randrange(len(data))
        open(path, "wb").write(data[:i] + b"\x00" + data[i:])
    elif kind == "bom":
        open(path, "wb").write(b"\xef\xbb\xbf" + data)
    elif kind == "long-line" and data:
        i = rng.randrange(len(data))
        open(path, "wb").write(data[:i] + b"A" * 70000 + data[i:])
    return kind


def cycle_models():
    """Exhaustive: cycle length 1..4 over 5 glyphs x {identity, scaled} x {all export, one non-export member} (x options later)."""
    import sys
    sys.path.insert(0, common.ROOT)
    from gen import model as M
    out = []
    for length, scaled, nonexport, entry in itertools.product((1, 2, 3, 4), (False, True), (False, True), (False, True)):
        rng = random.Random(f"cycle:{length}:{scaled}:{nonexport}:{entry}")
        m = M.build(rng, family=f"cyc{length}{int(scaled)}{int(nonexport)}{int(entry)}", n_axes=1 if length % 2 else 0, layout="onaxis", n_glyphs=6,
                    composites=0.0, glyph_order="full", instances=0)
        names = [g["name"] for g in m["glyphs"]]
        ring = names[:length]
        xf = [0.5, 0, 0, 0.5] if scaled else [1, 0, 0, 1]
        for i, n in enumerate(ring):
            g = next(x for x in m["glyphs"] if x["name"] == n)
            for layer in g["layers"].values():
                layer["contours"] = layer["contours"][:1] if entry else []
                layer["components"] = [{"base": ring[(i + 1) % length], "xform": xf + [10 * i, 5]}]
        if entry:
            # an innocent glyph that merely uses the cycle
            g = next(x for x in m["glyphs"] if x["name"] == names[-1])
            for layer in g["layers"].values():
                layer["components"] = [{"base": ring[0], "xform": [1, 0, 0, 1, 0, 0]}]
        if nonexport:
            g = next(x for x in m["glyphs"] if x["name"] == ring[-1])
            g["export"] = False
            m["lib"]["public.skipExportGlyphs"] = [ring[-1]]
        m["cycle"] = {"length": length, "scaled": scaled, "nonexport_member": nonexport, "used_from_outside": entry, "closing_edge_in": "all masters"}
        out.append(m)
    # cycles that exist in some masters only: the edge that closes the ring is present in the default master only, or in a
    # non-default master only (elsewhere that glyph uses an innocent simple glyph instead)
    for length, where, nonexport in itertools.product((1, 2, 3), ("default", "non-default"), (False, True)):
        rng = random.Random(f"cycle-partial:{length}:{where}:{nonexport}")
        m = M.build(rng, family=f"cycp{length}{where[0]}{int(nonexport)}", n_axes=1, layout="onaxis", n_glyphs=6, composites=0.0, glyph_order="full", instances=0)
        names = [g["name"] for g in m["glyphs"]]
        ring, innocent = names[:length], names[-2]
        default = m["masters"][0]["name"]
        for i, n in enumerate(ring):
            g = next(x for x in m["glyphs"] if x["name"] == n)
            for mname, layer in g["layers"].items():
                layer["contours"] = []
                closing = i == length - 1
                in_cycle = not closing or (mname == default) == (where == "default")
                layer["components"] = [{"base": ring[(i + 1) % length] if in_cycle else innocent, "xform": [1, 0, 0, 1, 10 * i, 5]}]
        if nonexport:
            g = next(x for x in m["glyphs"] if x["name"] == ring[0])
            g["export"] = False
            m["lib"]["public.skipExportGlyphs"] = [ring[0]]
        m["cycle"] = {"length": length, "scaled": False, "nonexport_member": nonexport, "used_from_outside": False, "closing_edge_in": where + " master only"}
        out.append(m)
    return out


def fea_include_cases(rng, base_dir, i):
    """UFO with features.fea whose include graph has a self loop / cycle / deep chain."""
    import sys
    sys.path.insert(0, common.ROOT)
    from gen import families, ufo
    m = families.make("static-basic", 7, i)
    kind = ["self-nonroot", "self-root", "two-cycle", "deep-60", "diamond-cycle", "missing"][i % 6]
    files = {}
    if kind == "self-nonroot":
        m["features_fea"] = "include(a.fea);\n"
        files["a.fea"] = "include(a.fea);\n"
    elif kind == "self-root":
        m["features_fea"] = "include(features.fea);\n"
    elif kind == "two-cycle":
        m["features_fea"] = "include(a.fea);\n"
        files["a.fea"] = "include(b.fea);\n"
        files["b.fea"] = "include(a.fea);\n"
    elif kind == "deep-60":
        m["features_fea"] = "include(c0.fea);\n"
        for k in range(60):
            files[f"c{k}.fea"] = f"include(c{k + 1}.fea);\n"
        files["c60.fea"] = "# end\n"
    elif kind == "diamond-cycle":
        m["features_fea"] = "include(a.fea);\ninclude(b.fea);\n"
        files["a.fea"] = "include(c.fea);\n"
        files["b.fea"] = "include(c.fea);\n"
        files["c.fea"] = "feature liga { include(a.fea); } liga;\n"
    else:
        m["features_fea"] = "include(nothere.fea);\n"
    d = os.path.join(base_dir, f"feainc{i}")
    src = ufo.render(m, d)
    for fn, txt in files.items():
        for place in (src, d):  # includes resolve relative to the UFO (and, in some tools, its parent)
            with open(os.path.join(place, fn), "w") as f:
                f.write(txt)
    return src, kind


FEA_TABLES = {
    "hhea": ["CaretOffset 2;", "Ascender 800;", "Descender -200;", "LineGap 10;"],
    "vhea": ["VertTypoAscender 500;", "VertTypoDescender -500;", "VertTypoLineGap 100;"],
    "head": ["FontRevision 1.1;"],
    "OS/2": ["FSType 4;", "Panose 2 0 0 0 0 0 0 0 0 0;", "TypoAscender 800;", "WeightClass 400;", 'Vendor "VRFY";'],
    "name": ['nameid 9 "A designer";', 'nameid 1 3 1 0x409 "Fam";'],
    "GDEF": ["GlyphClassDef [A B], , , ;", "LigatureCaretByPos A 100;"],
    "BASE": ["HorizAxis.BaseTagList ideo romn;", "HorizAxis.BaseScriptList latn romn -120 0;"],
    "STAT": ['ElidedFallbackName { name "Regular"; };', 'DesignAxis wght 0 { name "Weight"; };'],
    "vmtx": ["VertOriginY A 800;", "VertAdvanceY A 1000;"],
}
FEA_DAMAGE = ["double-semicolon", "lone-semicolon", "unknown-entry", "missing-semicolon", "stray-word", "stray-brace-content"]


def fea_table_damage_cases(base_dir):
    """Every feature-file table block x every kind of damage at an entry position (exhaustive, 54 sources): the compile has
    to end with a diagnostic, whatever the parser's recovery does with the stray tokens."""
    import sys
    sys.path.insert(0, common.ROOT)
    from gen import families, ufo
    out = []
    for ti, (table, entries) in enumerate(FEA_TABLES.items()):
        for di, damage in enumerate(FEA_DAMAGE):
            m = families.make("static-basic", 11, ti * 10 + di)
            e = list(entries)
            k = (ti + di) % len(e)
            if damage == "double-semicolon":
                e[k] = e[k] + ";"
            elif damage == "lone-semicolon":
                e.insert(k, ";")
            elif damage == "unknown-entry":
                e.insert(k, "Bogus 12;")
            elif damage == "missing-semicolon":
                e[k] = e[k].rstrip(";")
            elif damage == "stray-word":
                e.insert(k, "zzz")
            else:
                e.insert(k, "{ ; } ;")
            m["features_fea"] = "languagesystem DFLT dflt;\ntable %s {\n  %s\n} %s;\n" % (table, "\n  ".join(e), table)
            src = ufo.render(m, os.path.join(base_dir, f"featbl-{ti}-{di}"))
            out.append((src, f"{table}:{damage}"))
    return out


def classify(r, out):
    font = os.path.exists(out)
    if r.timed_out:
        return "inconclusive", "wall-clock watchdog"
    if r.cpu_limited or r.sig == signal.SIGXCPU:
        return "violation", f"exceeded the CPU-time limit of {CPU_S}s (signal {r.sig})"
    if r.sig:
        name = signal.Signals(r.sig).name if r.sig in set(signal.Signals) else str(r.sig)
        return "violation", f"killed by signal {name}"
    if r.rc == 134 or "stack overflow" in r.stderr:
        return "violation", "aborted (stack overflow / abort)"
    if "memory allocation of" in r.stderr:
        return "violation", "aborted on allocation failure under the address-space limit"
    if r.rc not in (0, 1, 2, 101):
        return "violation", f"unexpected exit status {r.rc}"
    if r.rc != 0 and font:
        return "violation", f"exit {r.rc} but an output font was written"
    if r.rc == 0 and not font:
        return "violation", "exit 0 but no font was written"
    return "ok", ""


def run(tier):
    chk = Check("C15", tier, level="fault_enumeration")
    bins = common.build("rel", ("fontc", "voracle"))
    fontc, voracle = bins["fontc"], bins["voracle"]
    from . import c05
    import sys
    sys.path.insert(0, common.ROOT)
    from gen import ufo
    rng = chk.rng
    nq = tier == "quick"
    cases = []  # (label, source path, opts, description)
    base = os.path.join(chk.scratch, "src")
    # 1. exhaustive component cycles
    cyc = cycle_models()
    for ci, m in enumerate(cyc):
        src = ufo.render(m, os.path.join(base, f"cyc{ci}"))
        for o in OPTS[:3]:
            cases.append(("component-cycle", src, o, json.dumps(m["cycle"])))
    n_cycle = len(cases)
    # 2. FEA include graphs
    for i in range(6 if nq else 24):
        src, kind = fea_include_cases(rng, base, i)
        cases.append(("fea-include:" + kind, src, (), kind))
    # 2b. damaged table blocks in feature code (exhaustive)
    for src, kind in fea_table_damage_cases(base):
        cases.append(("fea-table-damage:" + kind, src, (), kind))
    # 3. sampled structural mutants of corpus seeds
    seeds = [common.corpus_path(s) for s in SEEDS if os.path.exists(common.corpus_path(s))]
    n_mut = 280 if nq else 6000
    for i in range(n_mut):
        s = seeds[i % len(seeds)]
        d = os.path.join(base, f"m{i}")
        try:
            src = copy_source(s, d)
        except Exception as e:  # noqa
            continue
        mrng = random.Random(f"mut:{chk.seed}:{i}")
        fs = sorted(files_of(src))
        if not fs:
            continue
        # prefer the files that carry structure
        weights = [3 if f.endswith((".glif", ".plist", ".designspace", ".glyphs", ".fea")) else 1 for f in fs]
        descs = []
        for _ in range(mrng.choice([1, 1, 1, 2, 3])):
            f = mrng.choices(fs, weights)[0]
            if os.path.exists(f):
                descs.append(f"{os.path.relpath(f, d)}:{mutate_file(mrng, f)}")
        cases.append(("mutant", src, mrng.choice(OPTS), "; ".join(descs)))

    def work(ic):
        i, (label, src, opts, desc) = ic
        wd = os.path.join(chk.scratch, f"o{i}")
        os.makedirs(wd, exist_ok=True)
        out = os.path.join(wd, "font.ttf")
        cmd = [fontc, src, "-o", out, "--build-dir", os.path.join(wd, "build")] + list(opts)
        r = common.run(cmd, env=common.fontc_env(threads=2), timeout=300, cpu_s=CPU_S, as_bytes=AS_BYTES)
        verdict, why = classify(r, out)
        return {"i": i, "label": label, "src": src, "opts": list(opts), "desc": desc, "rc": r.rc, "sig": r.sig, "verdict": verdict, "why": why,
                "font": out if r.rc == 0 and os.path.exists(out) else None, "stderr": r.stderr[-600:], "cmd": cmd, "wd": wd, "wall": r.wall}
    results = pmap(work, list(enumerate(cases)), workers=8)
    fonts = [r["font"] for r in results if r["font"]]
    reports = c05.oracle(voracle, fonts) if fonts else {}
    counts = {"exit0": 0, "exit1": 0, "exit101": 0, "rejected_or_changed": 0}
    ref_sha = {}
    samples = []
    panics = {}
    for r in results:
        chk.coverage["evaluations"] += 1
        if r["verdict"] == "inconclusive":
            chk.inconc({"case": r["desc"][:100], "why": r["why"]})
            continue
        first_err = ""
        m = re.search(r"panicked at ([^\n]+)", r["stderr"])
        if m:
            first_err = m.group(1)[:80]
        if r["verdict"] == "violation":
            where = first_err or re.sub(r"\d+", "N", r["stderr"].strip().splitlines()[-1][:60] if r["stderr"].strip() else "")
            sig = f"{r['label'].split(':')[0]}:{r['why'].split('(')[0].strip()}"
            if r["label"] == "component-cycle":
                sig = f"component-cycle:{r['why'].split('(')[0].strip()}"
            chk.violation(sig, f"{r['label']} [{r['desc'][:160]}] opts={r['opts']}: {r['why']}; stderr: {r['stderr'][-200:]}",
                          replay={"cmd": r["cmd"], "label": r["label"], "desc": r["desc"]}, files=[r["src"]])
        elif r["rc"] == 0:
            counts["exit0"] += 1
            rep = reports.get(r["font"], {})
            for e in rep.get("errors", [])[:4]:
                chk.violation(f"bogus-font:{c05.sig_of(e)}", f"{r['label']} [{r['desc'][:160]}] opts={r['opts']}: exit 0 but the font is malformed: {e}",
                              replay={"cmd": r["cmd"], "desc": r["desc"]}, files=[r["src"], r["font"]])
        elif r["rc"] == 101:
            counts["exit101"] += 1
            panics[first_err] = panics.get(first_err, 0) + 1
        else:
            counts["exit1"] += 1
        if r["rc"] != 0:
            counts["rejected_or_changed"] += 1
        if len(samples) < 8 and (r["label"] != "mutant" or len(samples) >= 3):
            samples.append({"label": r["label"], "mutation": r["desc"][:200], "opts": r["opts"], "exit": r["rc"], "stderr_tail": r["stderr"][-160:]})
    for r in results:
        shutil.rmtree(r["wd"], ignore_errors=True)
    asan = {}
    if not nq:
        asan = asan_slice(chk, cases, rng)
    chk.coverage.update({
        "asan": asan,
        "distinct_nontrivial": counts["rejected_or_changed"],
        "rule": "fault enumeration: all component-cycle shapes (length 1-4 x identity/scaled x export/non-export member x used-from-outside) x 3 option "
                "sets exhaustively; FEA include graphs; sampled structural mutants of corpus seeds (truncate, drop/dup/swap lines or blocks, extreme "
                "numbers, byte flips, empty/missing files, token soup, NUL/BOM/long lines). Each case = one fontc process under RLIMIT_AS 8GiB / "
                "RLIMIT_CPU 60s. non-trivial = cases the compiler rejected (exit != 0).",
        "samples": samples, "component_cycle_cases": n_cycle, "exhaustive_over": "component-cycle shapes only", **counts,
        "main_thread_panics_exit101": panics,
    })
    chk.assumptions += ["exit 101 (uncaught main-thread panic: message, failure status, no font) is counted, not a violation - the unchanged tree does it on its own fixtures",
                        "termination is judged by CPU time (60 s, >400x the most expensive fixture), the wall-clock watchdog is inconclusive"]
    return chk.finish()


def asan_slice(chk, cases, rng):
    """A slice of the same cases under the AddressSanitizer build of the real CLI: memory errors on the error paths the
    mutants drive (the front ends' parsers, glyph-data lookups with from_utf8_unchecked, the FEA parser's unsafe)."""
    from . import sanitize
    try:
        afontc = sanitize.build("asan")["fontc"]
    except common.Inconclusive as e:
        chk.inconc({"why": "asan flavour could not be built"})
        return {"status": f"not run: {e}"}
    pick = rng.sample(cases, min(len(cases), 2000))
    info = {"status": "ran", "runs": 0, "reports": 0}

    def work(ic):
        i, (label, src, opts, desc) = ic
        wd = os.path.join(chk.scratch, f"a{i}")
        os.makedirs(wd, exist_ok=True)
        cmd = [afontc, src, "-o", os.path.join(wd, "font.ttf"), "--build-dir", os.path.join(wd, "build")] + list(opts)
        env = common.fontc_env(threads=2, extra={"ASAN_OPTIONS": "halt_on_error=1 abort_on_error=0 detect_leaks=0 allocator_may_return_null=1"})
        r = common.run(cmd, env=env, timeout=600, cpu_s=CPU_S * 6)
        shutil.rmtree(wd, ignore_errors=True)
        return label, desc, cmd, r
    for label, desc, cmd, r in pmap(work, list(enumerate(pick)), workers=8):
        info["runs"] += 1
        if r.timed_out:
            chk.inconc({"why": "asan watchdog", "case": desc[:100]})
            continue
        m = re.search(r"ERROR: AddressSanitizer: ([^\n]*)", r.stderr)
        if m:
            info["reports"] += 1
            frame = re.search(r"#\d+ 0x[0-9a-f]+ in (\S+) (/repo/\S+)", r.stderr)
            what = m.group(1).split(" on address")[0] + (f" in {frame.group(1)} {frame.group(2)}" if frame else "")
            chk.violation("asan:" + re.sub(r"0x[0-9a-f]+|\d+", "N", what)[:100], f"AddressSanitizer: {what} on {label} [{desc[:160]}]", replay={"cmd": cmd, "label": label, "desc": desc})
    return info


def replay(path):
    rec = json.load(open(path))
    rp = rec["replay"]
    chk = Check("C15", "quick", level="fault_enumeration")
    common.build("rel", ("fontc",))
    files_dir = rec.get("files_dir")
    cmd = list(rp["cmd"])
    if files_dir and os.path.isdir(files_dir):
        ents = os.listdir(files_dir)
        if ents:
            cmd[1] = os.path.join(files_dir, ents[0])
    out = os.path.join(chk.scratch, "font.ttf")
    cmd[cmd.index("-o") + 1] = out
    cmd[cmd.index("--build-dir") + 1] = os.path.join(chk.scratch, "build")
    r = common.run(cmd, env=common.fontc_env(threads=2), timeout=300, cpu_s=CPU_S, as_bytes=AS_BYTES)
    verdict, why = classify(r, out)
    if verdict == "violation":
        chk.violation(rec["signature"], why, replay=rp)
    chk.coverage.update({"evaluations": 1, "distinct_nontrivial": 2, "rule": "replay", "samples": [rp]})
    return chk.finish()
