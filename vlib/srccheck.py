"""Shared driver for the manifest-based oracles (voracle src): C03, C04, C06, C08."""
import json
import os
import re
import shutil
import subprocess

from . import common, gensrc
from .common import Check, compile_font, pmap


def sig_of(msg):
    m = re.sub(r"'[^']*'", "X", msg)
    m = re.sub(r"\([^)]*\)", "(..)", m)
    m = re.sub(r"\[[^\]]*\]", "[..]", m)
    m = re.sub(r"-?\d+(\.\d+)?", "N", m)
    return m[:80]


def evaluate(bins, chk, i, source, opts, keep=False):
    wd = os.path.join(chk.scratch, f"e{i}")
    r, out, cmd = compile_font(bins["fontc"], source, wd, args=opts, threads=2, timeout=600)
    res = {"source": source, "opts": list(opts), "rc": r.rc, "timed_out": r.timed_out, "cmd": cmd, "wd": wd, "font": out, "stderr": r.stderr[-300:]}
    if r.rc == 0 and os.path.exists(out):
        man = os.path.join(os.path.dirname(source), "manifest.json")
        p = subprocess.run([bins["voracle"], "src", man, out] + list(opts), capture_output=True, text=True, timeout=600)
        try:
            res["oracle"] = json.loads(p.stdout)
        except Exception:  # noqa
            res["oracle_error"] = (p.stderr or p.stdout)[-300:]
    return res


def run_prop(prop, tier, n_quick, n_thorough, opt_choices, stat_keys, nontrivial_key, rule, extra_sources=None, post=None, fams=None, must_compile=True, pre=None):
    chk = Check(prop, tier)
    bins = common.build("rel", ("fontc", "voracle") + (("vapi",) if pre else ()))
    if pre:
        pre(chk, bins, tier)
    n = n_quick if tier == "quick" else n_thorough
    srcs = gensrc.sources_for(prop, chk, n, fams=fams, post=post)
    rng = chk.rng
    cases = [(s, rng.choice(opt_choices)) for s in srcs]
    totals = {}
    samples = []
    nontrivial = 0
    for res in pmap(lambda ic: evaluate(bins, chk, ic[0], ic[1][0], ic[1][1]), list(enumerate(cases))):
        chk.coverage["evaluations"] += 1
        rel = os.path.basename(os.path.dirname(res["source"]))
        replay = {"source": res["source"], "opts": res["opts"], "cmd": res["cmd"]}
        if res["timed_out"]:
            chk.inconc({"source": rel, "why": "watchdog"})
        elif res["rc"] != 0:
            if must_compile:
                chk.inconc({"source": rel, "opts": res["opts"], "why": f"rc {res['rc']}", "stderr": res["stderr"][-200:]})
        elif "oracle" not in res or res["oracle"].get("oracle_panicked"):
            chk.inconc({"source": rel, "why": "oracle failed: " + str(res.get("oracle_error", "panicked"))[:200]})
        else:
            o = res["oracle"]
            for msg in o["violations"].get(prop, []):
                chk.violation(f"{prop.lower()}:{sig_of(msg)}", f"{rel} {res['opts']}: {msg}", replay=replay, files=[os.path.dirname(res["source"]), res["font"]])
            for k, v in o["stats"].items():
                totals[k] = totals.get(k, 0) + v
            nontrivial += int(o["stats"].get(nontrivial_key, 0))
            if len(samples) < 4:
                samples.append({"source": rel, "opts": res["opts"], "stats": {k: v for k, v in o["stats"].items() if k.startswith(prop.lower())}, "skipped": o.get("skipped", [])[:3]})
        shutil.rmtree(res["wd"], ignore_errors=True)
    chk.coverage["sources_by_format"] = {"glyphs": sum(1 for s in srcs if s.endswith(".glyphs")), "designspace_or_ufo": sum(1 for s in srcs if not s.endswith(".glyphs"))}
    chk.coverage.update({"distinct_nontrivial": nontrivial, "rule": rule, "samples": samples,
                         **{k: int(v) for k, v in totals.items() if k.split("_")[0] == prop.lower()}})
    return chk.finish()


def replay_prop(prop, path):
    rec = json.load(open(path))
    rp = rec["replay"]
    chk = Check(prop, "quick")
    bins = common.build("rel", ("fontc", "voracle"))
    src = rp["source"]
    fd = rec.get("files_dir")
    if not os.path.exists(src) and fd:
        cand = os.path.join(fd, os.path.basename(os.path.dirname(src)), os.path.basename(src))
        if os.path.exists(cand):
            src = cand
    res = evaluate(bins, chk, 0, src, tuple(rp["opts"]))
    for msg in res.get("oracle", {}).get("violations", {}).get(prop, []):
        chk.violation(f"{prop.lower()}:{sig_of(msg)}", msg, replay=rp)
    chk.coverage.update({"evaluations": 1, "distinct_nontrivial": 2, "rule": "replay", "samples": [rp]})
    return chk.finish()
