"""C12 - component handling options never change what a glyph looks like.

The same generated source is built under all 16 subsets of {flatten, decompose-all, decompose-transformed,
prefer-simple-glyphs=false}; every source-declared exported glyph is drawn (skrifa, unhinted) at every master and
at random locations in each build and compared with the fully decomposed build."""
import itertools
import json
import os
import random
import shutil
import subprocess

from . import common, gensrc
from .common import Check, compile_font, pmap

FLAGS = ["--flatten-components", "--decompose-components", "--decompose-transformed-components", "--prefer-simple-glyphs=false"]
SUBSETS = [tuple(f for f, on in zip(FLAGS, bits) if on) for bits in itertools.product([0, 1], repeat=4)]
REF = ("--decompose-components",)


def one_source(bins, chk, i, source):
    wd = os.path.join(chk.scratch, f"s{i}")
    man = json.load(open(os.path.join(os.path.dirname(source), "manifest.json")))
    rng = random.Random(f"c12:{chk.seed}:{i}")
    locs = []
    for _ in range(5):
        l = []
        for a in man["axes"]:
            from gen import model as M
            lo, df, hi = M.design_bounds(a)
            v = rng.uniform(-1, 1)
            if lo == df:
                v = abs(v)
            if hi == df:
                v = -abs(v)
            l.append(round(v * 16384) / 16384)
        locs.append(l)
    os.makedirs(wd, exist_ok=True)
    lp = os.path.join(wd, "locs.json")
    json.dump(locs, open(lp, "w"))
    fonts = {}
    fails = {}
    for k, sub in enumerate(SUBSETS):
        r, out, cmd = compile_font(bins["fontc"], source, wd, args=("--no-production-names",) + sub, name=f"b{k}", threads=2, timeout=600)
        if r.rc == 0 and os.path.exists(out):
            fonts[sub] = out
        else:
            fails[sub] = (r.rc, r.stderr[-200:])
    res = {"source": source, "wd": wd, "fails": fails, "fonts": len(fonts)}
    if REF not in fonts:
        res["no_ref"] = True
        return res
    args = [bins["voracle"], "c12", os.path.join(os.path.dirname(source), "manifest.json"), lp, fonts[REF]]
    for sub, f in fonts.items():
        if sub != REF:
            args += [" ".join(sub) or "(default)", f]
    p = subprocess.run(args, capture_output=True, text=True, timeout=1200)
    try:
        res["oracle"] = json.loads(p.stdout)
    except Exception:  # noqa
        res["oracle_error"] = (p.stderr or p.stdout)[-300:]
    return res


def run(tier):
    chk = Check("C12", tier)
    bins = common.build("rel", ("fontc", "voracle"))
    n = 18 if tier == "quick" else 200
    srcs = gensrc.sources_for("C12", chk, n)
    comparisons = nontrivial = partial = 0
    samples = []
    for res in pmap(lambda ic: one_source(bins, chk, ic[0], ic[1]), list(enumerate(srcs)), workers=8):
        rel = os.path.basename(os.path.dirname(res["source"]))
        chk.coverage["evaluations"] += res["fonts"]
        if res.get("no_ref"):
            chk.inconc({"source": rel, "why": "the fully decomposed build does not compile", "detail": str(res["fails"].get(REF))[:200]})
        elif "oracle" not in res or res["oracle"].get("oracle_panicked") or res["oracle"].get("error"):
            chk.inconc({"source": rel, "why": "oracle failed " + str(res.get("oracle_error", res.get("oracle")))[:200]})
        else:
            o = res["oracle"]
            comparisons += o["glyph_location_comparisons"]
            nontrivial += o["composite_glyph_builds"]
            partial += o.get("comparisons_at_masters_a_component_lacks", 0)
            for v in o["violations"][:12]:
                kind = "advance" if "advance" in v["what"] else ("shape" if "outline differs" in v["what"] else "other")
                fam = rel.rsplit("-", 2)[0]
                sig = f"c12:{kind}:{v.get('opts', '')}:{'overflow' if 'overflow' in fam else 'plain'}"
                if v.get("class"):
                    sig = f"c12:{v['class']}:{kind}"
                chk.violation(sig, f"{rel}: {v['what']}",
                              replay={"source": res["source"], "opts": v.get("opts")}, files=[os.path.dirname(res["source"])])
            for sub, (rc, err) in res["fails"].items():
                chk.violation(f"c12:option-set-fails:{' '.join(sub)}", f"{rel}: builds with --decompose-components but fails (rc {rc}) with {sub}: {err}", replay={"source": res["source"], "opts": list(sub)})
            if len(samples) < 4:
                samples.append({"source": rel, "builds": res["fonts"], "comparisons": o["glyph_location_comparisons"], "composite_glyph_builds": o["composite_glyph_builds"]})
        shutil.rmtree(res["wd"], ignore_errors=True)
    chk.coverage.update({
        "distinct_nontrivial": nontrivial,
        "rule": "generated sources with nested (depth <= 4), scaled / flipped / rotated (within and beyond +-2), mixed contour+component and non-export "
                "component glyphs, variable offsets; each built under all 16 option subsets; every exported source glyph drawn at each master and 5 random "
                "locations and compared with the fully decomposed build (contours up to start point / direction, tolerance 1.05 units per nesting level; "
                "advances equal); evaluations = builds; non-trivial = (composite glyph, build) pairs compared",
        "samples": samples, "glyph_location_comparisons": comparisons, "comparisons_at_masters_a_component_lacks": partial,
    })
    chk.assumptions += ["skrifa is used only as the renderer that resolves components and applies gvar; the comparison is between builds, not against skrifa"]
    return chk.finish()


def replay(path):
    rec = json.load(open(path))
    rp = rec["replay"]
    chk = Check("C12", "quick")
    bins = common.build("rel", ("fontc", "voracle"))
    src = rp["source"]
    fd = rec.get("files_dir")
    if not os.path.exists(src) and fd:
        cand = os.path.join(fd, os.path.basename(os.path.dirname(src)), os.path.basename(src))
        src = cand if os.path.exists(cand) else src
    res = one_source(bins, chk, 0, src)
    for v in res.get("oracle", {}).get("violations", []):
        chk.violation(rec["signature"], v["what"], replay=rp)
    chk.coverage.update({"evaluations": res.get("fonts", 1), "distinct_nontrivial": 2, "rule": "replay", "samples": [rp]})
    return chk.finish()
