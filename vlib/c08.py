"""C08 - axis ranges and the user/design/normalized mapping survive into fvar and avar.

Two monitors: (a) API level - random strictly increasing maps through fontdrasil::coords::CoordConverter against an own
piecewise-linear model (vapi c08, rlimited children); (b) end to end - generated axis sets compiled by the CLI, fvar/avar
evaluated by the own evaluator (voracle src)."""
from . import apirun, srccheck

OPTS = [(), ("--no-production-names",)]
RULE = ("generated axis sets (1-3 axes; 2-9 map nodes; default at min / max / inside; non-integer nodes; slopes 0.05-20; flat segments; identity maps) "
        "in tiny fonts compiled by the CLI; fvar bounds compared with the source, avar(defaultNormalize(u)) compared with the source's own "
        "piecewise-linear map + design normalization at nodes, segment interiors and a grid (bound 1.5 x 2^-14 x (1+slope)); -1/0/+1 entries, "
        "monotonicity, instance coordinates in range; plus the CoordConverter API on random maps (every conversion against an own model, round "
        "trips, exact -1/0/+1 anchors, monotonic normalization); non-trivial = user coordinates evaluated on axes with a non-identity map")


def api(chk, bins, tier):
    n = 1500 if tier == "quick" else 60000
    tot = {"maps": 0, "points": 0, "nontrivial": 0}
    for seed, res, err in apirun.run_children(bins["vapi"], "c08", [chk.seed * 100 + k for k in range(16)], n):
        if res is None:
            if err == "watchdog":
                chk.inconc({"seed": seed, "why": err})
            else:
                chk.violation("api:child-died", f"vapi c08 seed {seed}: {err}", replay={"seed": seed, "n": n})
            continue
        for k in tot:
            tot[k] += res.get(k, 0)
        for v in res["violations"]:
            chk.violation("api:" + srccheck.sig_of(v["what"]), f"CoordConverter (map {v['map']}, default index {v['default']}): {v['what']}", replay={"seed": seed, "case": v.get("case"), "map": v["map"]})
    chk.coverage.update({"c08_api_maps": tot["maps"], "c08_api_points": tot["points"]})


def run(tier):
    return srccheck.run_prop("C08", tier, 150, 4000, OPTS, None, "c08_coords", RULE, pre=api)


def replay(path):
    return srccheck.replay_prop("C08", path)
