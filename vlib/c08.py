"""C08 - axis ranges and the user/design/normalized mapping survive into fvar and avar."""
from . import srccheck

OPTS = [(), ("--no-production-names",)]
RULE = ("generated axis sets (1-3 axes; 2-9 map nodes; default at min / max / inside; non-integer nodes; slopes 0.05-20; flat segments; identity maps) "
        "in tiny fonts compiled by the CLI; fvar bounds compared with the source, avar(defaultNormalize(u)) compared with the source's own "
        "piecewise-linear map + design normalization at nodes, segment interiors and a grid (bound 1.5 x 2^-14 x (1+slope)); -1/0/+1 entries, "
        "monotonicity, instance coordinates in range; non-trivial = user coordinates evaluated on axes with a non-identity map")


def run(tier):
    return srccheck.run_prop("C08", tier, 150, 4000, OPTS, None, "c08_coords", RULE)


def replay(path):
    return srccheck.replay_prop("C08", path)
