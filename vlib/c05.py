"""C05 - every emitted font is well-formed and internally consistent.

Workload: corpus + generator families under many option sets; every font the compiler reports as
built goes through the raw sfnt walker + full read-fonts traversal + cross-reference walker
(`voracle c05`).  Presence of tables is cross-checked against the source manifest for generated
sources (the compiler silently drops a table that fails write-fonts validation)."""
import json
import os
import re
import shutil
import subprocess

from . import common
from .common import Check, compile_font, pmap

OPTION_SETS = [(), ("--flatten-components",), ("--decompose-components",), ("--decompose-transformed-components",),
               ("--no-production-names",), ("--keep-direction",), ("--skip-features",), ("--prefer-simple-glyphs=false",),
               ("--flatten-components", "--prefer-simple-glyphs=false"), ("--emit-lookup-debug-info",)]


def oracle(voracle, fonts):
    """Run the C05 oracle over font files; returns {font: report}."""
    out = {}
    for i in range(0, len(fonts), 200):
        chunk = fonts[i:i + 200]
        p = subprocess.run([voracle, "c05"] + chunk, capture_output=True, text=True, timeout=1200)
        for line in p.stdout.splitlines():
            try:
                r = json.loads(line)
            except json.JSONDecodeError:
                continue
            out[r["font"]] = r
        for f in chunk:
            out.setdefault(f, {"font": f, "oracle_died": p.stderr[-300:]})
    return out


def expected_tables(manifest, opts):
    want = set()
    if manifest.get("axes"):
        want |= {"fvar", "gvar", "HVAR", "STAT"}
    if "--skip-features" not in opts and any(m.get("kerning") for m in manifest["masters"]):
        want.add("GPOS")
    return want


def sig_of(err):
    e = re.sub(r"\d+", "N", err)
    return e[:90]


def run(tier):
    from . import gensrc
    chk = Check("C05", tier)
    bins = common.build("rel", ("fontc", "voracle"))
    fontc, voracle = bins["fontc"], bins["voracle"]
    rng = chk.rng
    srcs = [common.corpus_path(s) for s in common.corpus()]
    nq = tier == "quick"
    cases = []
    for s in (rng.sample(srcs, 70) if nq else srcs):
        cases.append((s, ()))
        for o in rng.sample(OPTION_SETS[1:], 1 if nq else 4):
            cases.append((s, o))
    gen = gensrc.sources_for("C05", chk, n=28 if nq else 300, fams=None)
    for g in gen:
        cases.append((g, rng.choice(OPTION_SETS)))
        if not nq:
            cases.append((g, rng.choice(OPTION_SETS)))

    def comp(ic):
        i, (s, o) = ic
        wd = os.path.join(chk.scratch, f"f{i}")
        r, out, cmd = compile_font(fontc, s, wd, args=o, threads=2, timeout=600)
        return {"i": i, "source": s, "opts": list(o), "rc": r.rc, "timed_out": r.timed_out, "font": out if r.rc == 0 and os.path.exists(out) else None,
                "wd": wd, "cmd": cmd, "stderr": r.stderr[-300:]}
    results = pmap(comp, list(enumerate(cases)))
    fonts = [r["font"] for r in results if r["font"]]
    reports = oracle(voracle, fonts)
    shas = set()
    nontrivial = 0
    totals = {"nodes": 0, "glyph_ids_checked": 0, "name_ids_checked": 0, "indices_checked": 0, "composites": 0}
    samples = []
    for r in results:
        chk.coverage["evaluations"] += 1
        rel = common_rel(r["source"])
        if r["timed_out"]:
            chk.inconc({"source": rel, "why": "watchdog"})
            continue
        if r["rc"] == 0 and not r["font"]:
            chk.violation(f"success-without-font:{rel}", f"{rel} {r['opts']}: exit 0 but no output file", replay={"cmd": r["cmd"]})
            continue
        if not r["font"]:
            chk.inconc({"source": rel, "opts": r["opts"], "why": f"rc {r['rc']}", "stderr": r["stderr"][-150:]})
            continue
        rep = reports.get(r["font"], {})
        if "errors" not in rep:
            chk.inconc({"source": rel, "why": "oracle died", "detail": str(rep)[:200]})
            continue
        errs = list(rep["errors"])
        man = os.path.join(os.path.dirname(r["source"]), "manifest.json")
        if os.path.exists(man):
            missing = expected_tables(json.load(open(man)), r["opts"]) - set(rep["tables"])
            errs += [f"table {t} expected from the source but absent (dropped?)" for t in sorted(missing)]
        for e in errs[:8]:
            chk.violation(f"malformed:{sig_of(e)}", f"{rel} {r['opts']}: {e}", replay={"source": r["source"], "opts": r["opts"], "cmd": r["cmd"]}, files=[r["font"]])
        sha = common.sha256_file(r["font"])
        if sha not in shas and len(rep["tables"]) >= 12:
            nontrivial += 1
        shas.add(sha)
        for k in totals:
            totals[k] += rep.get(k, 0)
        if len(samples) < 5:
            samples.append({"source": rel, "opts": r["opts"], "tables": rep["tables"], "num_glyphs": rep["num_glyphs"], "fields_walked": rep["nodes"],
                            "glyph_ids_checked": rep["glyph_ids_checked"], "indices_checked": rep["indices_checked"], "max_component_depth": rep.get("max_depth")})
    for r in results:
        shutil.rmtree(r["wd"], ignore_errors=True)
    chk.coverage.update({
        "distinct_nontrivial": nontrivial,
        "rule": "evaluations = compiles (corpus and generated sources x option sets); each successful font is walked (container checksums/offsets/"
                "padding, full read-fonts traversal, glyph/lookup/feature/name/region/axis references, component graph vs maxp); non-trivial = "
                "distinct font (by sha256) with >= 12 tables",
        "samples": samples, "fonts_walked": len(fonts), "distinct_fonts": len(shas), **{"total_" + k: v for k, v in totals.items()},
    })
    chk.assumptions += ["read-fonts (fontations) is the independent parser; value-record device offsets nested in class records are excluded from the generic traversal (read-fonts resolves them against the wrong base)"]
    return chk.finish()


def common_rel(p):
    return os.path.relpath(p, common.TESTDATA) if p.startswith(common.TESTDATA) else os.path.basename(os.path.dirname(p)) + "/" + os.path.basename(p)


def replay(path):
    rec = json.load(open(path))
    rp = rec["replay"]
    chk = Check("C05", "quick")
    bins = common.build("rel", ("fontc", "voracle"))
    wd = os.path.join(chk.scratch, "r")
    r, out, cmd = compile_font(bins["fontc"], rp["source"], wd, args=rp["opts"], threads=2)
    if r.rc == 0:
        rep = oracle(bins["voracle"], [out])[out]
        for e in rep.get("errors", []):
            chk.violation(f"malformed:{sig_of(e)}", e, replay=rp)
    chk.coverage.update({"evaluations": 1, "distinct_nontrivial": 2, "rule": "replay", "samples": [rp]})
    return chk.finish()
