"""C18 - names referenced from fvar / STAT / feature parameters exist, reserved ids only where allowed, strings are
the source's; ids 1-6/16/17 follow the documented fallback rules; nothing depends on hash order.

Every generated naming configuration is compiled by the real CLI under three forced hash seeds (one thread, so the
seed fixes every HashMap's order): the three fonts must be byte-identical, and the first is judged by
`voracle src` (harness/src/eval/names.rs) against the manifest."""
import json
import os
import re
import shutil
import subprocess

from . import common, gensrc, srccheck
from .common import Check, compile_font, pmap

RULE = ("generated naming configurations (each legacy / typographic / style-map / version / unique-id / PostScript-name field present or absent, "
        "RIBBI and non-RIBBI styles, axis names and named-instance names / PostScript names colliding with family, style, full, axis and each "
        "other's strings, instances on and off the default location, featureNames / cvParameters / table name in feature code, static and "
        "variable); every name id referenced from fvar, STAT and GSUB/GPOS feature parameters must have a non-empty record, reserved ids only where "
        "the spec allows (2/17 for a default-location instance and the STAT elided fallback, 6 for a PostScript name), strings equal to the source's, "
        "ids 1-6,16,17 equal to an independent model of ufo2ft's documented fallback rules, and the bytes equal under 3 hash seeds; "
        "non-trivial = references to ids >= 256 or to an allowed reserved id")
SEEDS = (11, 12, 13)


def evaluate(bins, chk, i, source, keep=False):
    wd = os.path.join(chk.scratch, f"e{i}")
    outs = []
    res = {"source": source, "wd": wd}
    failed = []
    for hs in SEEDS:
        r, out, cmd = compile_font(bins["fontc"], source, wd, name=f"f{hs}", hash_seed=hs, threads=1, timeout=600)
        if r.timed_out:
            res["timed_out"] = True
            return res
        if r.rc != 0 or not os.path.exists(out):
            failed.append((hs, r.rc, r.stderr))
            continue
        outs.append((hs, out, cmd))
    if failed:
        # a naming configuration is valid input: a compile that fails under some hash seeds only, or that dies of a panic in the
        # jobs that resolve name references, is the property failing, not an input problem
        hs, rc, err = failed[0]
        site = re.search(r"panicked at (?:/repo/)?([\w./-]+:\d+)", err)
        res["failed"] = {"seeds": [f[0] for f in failed], "ok_seeds": [o[0] for o in outs], "rc": rc, "panic_site": site.group(1) if site else None,
                         "stderr": err[-400:]}
        res["cmd"] = cmd
        return res
    shas = {common.sha256_file(o) for _, o, _ in outs}
    res["fonts"] = [o for _, o, _ in outs]
    res["cmd"] = outs[0][2]
    if len(shas) > 1:
        a, b = outs[0][1], next(o for _, o, _ in outs if common.sha256_file(o) != common.sha256_file(outs[0][1]))
        res["hash_dependent"] = common.table_diff(a, b)
    man = os.path.join(os.path.dirname(source), "manifest.json")
    p = subprocess.run([bins["voracle"], "src", man, outs[0][1]], capture_output=True, text=True, timeout=600)
    try:
        res["oracle"] = json.loads(p.stdout)
    except Exception:  # noqa
        res["oracle_error"] = (p.stderr or p.stdout)[-300:]
    return res


def run(tier):
    chk = Check("C18", tier)
    bins = common.build("rel", ("fontc", "voracle"))
    n = 40 if tier == "quick" else 600
    srcs = gensrc.sources_for("C18", chk, n)
    totals, samples, nontrivial = {}, [], 0
    for res in pmap(lambda ic: evaluate(bins, chk, ic[0], ic[1]), list(enumerate(srcs))):
        chk.coverage["evaluations"] += 1
        rel = os.path.basename(os.path.dirname(res["source"]))
        replay = {"source": res["source"], "cmd": res.get("cmd"), "hash_seeds": SEEDS}
        files = [os.path.dirname(res["source"])] + res.get("fonts", [])[:1]
        if res.get("timed_out"):
            chk.inconc({"source": rel, "why": "watchdog"})
        elif "failed" in res:
            fl = res["failed"]
            site = fl["panic_site"]
            if fl["ok_seeds"]:
                chk.violation("c18:compiles-or-fails-by-hash-order", f"{rel}: compiles under hash seeds {fl['ok_seeds']} but fails under {fl['seeds']}"
                              + (f" (panic at {site})" if site else f": {fl['stderr'][-200:]}"), replay=replay, files=files)
            elif site and re.search(r"fvar|stat|name|static_metadata|feature", site):
                chk.violation(f"c18:name-resolution-panics:{site}", f"{rel}: a valid naming configuration ends in a panic at {site}", replay=replay, files=files)
            else:
                chk.inconc({"source": rel, "why": f"rc {fl['rc']}", "stderr": fl["stderr"][-200:]})
        elif "oracle" not in res or res["oracle"].get("oracle_panicked"):
            chk.inconc({"source": rel, "why": "oracle failed: " + str(res.get("oracle_error", "panicked"))[:200]})
        else:
            if res.get("hash_dependent"):
                chk.violation("c18:depends-on-hash-order", f"{rel}: the font differs between hash seeds in tables {res['hash_dependent']}", replay=replay, files=files)
            o = res["oracle"]
            for msg in o["violations"].get("C18", []):
                chk.violation(f"c18:{srccheck.sig_of(msg)}", f"{rel}: {msg}", replay=replay, files=files)
            for k, v in o["stats"].items():
                totals[k] = totals.get(k, 0) + v
            nontrivial += int(o["stats"].get("c18_nontrivial", 0))
            if len(samples) < 3:
                man = json.load(open(os.path.join(os.path.dirname(res["source"]), "manifest.json")))
                samples.append({"source": rel, "fontinfo_names": man["names"], "expected": man["expect_names"], "instances": [i["name"] for i in man["instances"]],
                                "stats": {k: v for k, v in o["stats"].items() if k.startswith("c18")}})
        shutil.rmtree(res["wd"], ignore_errors=True)
    chk.coverage.update({"distinct_nontrivial": nontrivial, "rule": RULE, "samples": samples, "hash_seeds_per_source": len(SEEDS),
                         **{k: int(v) for k, v in totals.items() if k.startswith("c18")}})
    return chk.finish()


def replay(path):
    rec = json.load(open(path))
    rp = rec["replay"]
    chk = Check("C18", "quick")
    bins = common.build("rel", ("fontc", "voracle"))
    src = rp["source"]
    fd = rec.get("files_dir")
    if not os.path.exists(src) and fd:
        cand = os.path.join(fd, os.path.basename(os.path.dirname(src)), os.path.basename(src))
        if os.path.exists(cand):
            src = cand
    res = evaluate(bins, chk, 0, src)
    if "failed" in res:
        fl = res["failed"]
        if fl["ok_seeds"]:
            chk.violation("c18:compiles-or-fails-by-hash-order", str(fl), replay=rp)
        elif fl["panic_site"]:
            chk.violation(f"c18:name-resolution-panics:{fl['panic_site']}", str(fl), replay=rp)
    if res.get("hash_dependent"):
        chk.violation("c18:depends-on-hash-order", str(res["hash_dependent"]), replay=rp)
    for msg in res.get("oracle", {}).get("violations", {}).get("C18", []):
        chk.violation(f"c18:{srccheck.sig_of(msg)}", msg, replay=rp)
    chk.coverage.update({"evaluations": 1, "distinct_nontrivial": 2, "rule": "replay", "samples": [rp]})
    return chk.finish()
