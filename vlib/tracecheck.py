"""Offline checker for scheduler traces (C02) - a happens-before race detector over context items.

Input: the event log written by the fontc_verif hooks (one JSON object per line, file order =
sequence order).  The checker builds the *forced-order* DAG over jobs (edges that hold in every
schedule: dependencies the scheduler enforced at launch, creation, unblocking) and requires every
conflicting pair of accesses to one context item to be ordered by it.  A second, predictive pass asks
at which earlier scheduler poll points a job could already have been launched had workers been
faster, and re-checks its accesses under the smaller dependency set it would have had then.

The checker does its own access matching from the structurally logged access lists; it never calls
the code under test."""
import json
from collections import defaultdict


def key_of(j):
    s = j["id"]
    if (s.startswith("Fe(") or s.startswith("Be(")) and s.endswith(")"):
        s = s[3:-1]
    return j["disc"] + "|" + s


class Acc:
    __slots__ = ("kind", "variants", "specifics")

    def __init__(self, raw):
        self.variants, self.specifics = set(), set()
        if isinstance(raw, str):
            self.kind = raw  # none | unknown | all
        else:
            self.kind = "set"
            for e in raw:
                if e["k"] == "variant":
                    self.variants.add(e["disc"])
                else:
                    self.specifics.add(key_of(e))

    def sig(self):
        return (self.kind, tuple(sorted(self.variants)), tuple(sorted(self.specifics)))


class Trace:
    def __init__(self, path):
        self.events = []
        with open(path) as f:
            for line in f:
                line = line.strip()
                if line:
                    try:
                        self.events.append(json.loads(line))
                    except json.JSONDecodeError:
                        pass  # a truncated last line after an abort


def check(path):
    """Returns a dict: violations (list), stats (dict)."""
    ev = Trace(path).events
    viol = []
    stats = defaultdict(int)

    ins_at = {}  # key -> seq of ins
    kind = {}  # key -> work|nop|also
    disc = {}
    owner = {}  # also-id key -> parent key
    by_disc = defaultdict(list)  # disc -> [key] in insertion order
    creator = {}  # key -> creating job key (hs:<job>) or None
    acc_hist = defaultdict(list)  # key -> [(seq, Acc, in_hs_jobkey|None)]
    launch_at, end_at, complete_at, skip_at = {}, {}, {}, {}
    launch_acc = {}
    pending_also = []
    polls = []  # seq of wave polls
    hs_stack_job = None
    accesses = defaultdict(lambda: defaultdict(lambda: [set(), set()]))  # item -> actor -> [ops]
    name_of = {}
    launch_order = []
    unblock = {}  # key -> (seq, job that unblocked)
    hs_begin_at = {}

    def actor_job(actor):
        # "job:Fe(Glyph(a))" / "hs:Fe(Glyph(a))" -> key; needs the disc, so resolved through name_of
        return actor

    id_to_key = {}  # Debug string of AnyWorkId -> key

    for e in ev:
        t, n = e["t"], e["n"]
        if t == "ins":
            k = key_of(e["job"])
            id_to_key[e["job"]["id"]] = k
            name_of[k] = e["job"]["id"]
            if k in ins_at and k not in complete_at:
                viol.append({"kind": "scheduler", "what": f"{e['job']['id']} inserted twice while pending", "n": n})
            ins_at[k] = n
            kind[k] = e["kind"]
            disc[k] = e["job"]["disc"]
            by_disc[disc[k]].append(k)
            a = e["actor"]
            creator[k] = id_to_key.get(a[3:]) if a.startswith("hs:") else None
            acc_hist[k].append((n, Acc(e["reads"]), creator[k]))
            if e["kind"] == "also":
                pending_also.append(k)
            stats["jobs"] += 1
            if creator[k] is not None:
                stats["dynamic_jobs"] += 1
        elif t == "also":
            k = key_of(e["job"])
            for a in e["also"]:
                owner[key_of(a)] = k
        elif t == "rewrite":
            k = key_of(e["job"])
            a = e["actor"]
            by = id_to_key.get(a[3:]) if a.startswith("hs:") else None
            prev = acc_hist[k][-1][1] if acc_hist[k] else None
            new = Acc(e["reads"])
            acc_hist[k].append((n, new, by))
            stats["rewrites"] += 1
            if prev is not None and prev.kind == "unknown" and new.kind != "unknown" and by is not None:
                unblock[k] = (n, by)
                stats["unblock_edges"] += 1
        elif t == "launch":
            k = key_of(e["job"])
            launch_at[k] = n
            launch_acc[k] = Acc(e["reads"])
            launch_order.append(k)
        elif t == "end":
            end_at[key_of(e["job"])] = n
        elif t == "skip":
            skip_at[key_of(e["job"])] = (n, id_to_key.get(e["actor"][3:]) if e["actor"].startswith("hs:") else None)
        elif t == "complete":
            k = key_of(e["job"])
            if k in complete_at:
                viol.append({"kind": "scheduler", "what": f"{e['job']['id']} completed twice", "n": n})
            complete_at[k] = n
        elif t == "poll":
            if e["at"] == "wave":
                polls.append(n)
        elif t == "hs_begin":
            hs_begin_at[key_of(e["job"])] = n
        elif t == "acc":
            item = key_of(e["item"])
            name_of.setdefault(item, e["item"]["id"])
            ops = accesses[item][e["actor"]]
            ops[0 if e["op"] == "R" else 1].add(n)
            stats["accesses"] += 1

    def own(k):
        return owner.get(k, k)

    def matched(acc, upto):
        """(variant-matched ids, specific-matched ids) among ids inserted before seq `upto`."""
        mv, ms = [], []
        if acc.kind == "all":
            return [k for k, s in ins_at.items() if s < upto], []
        if acc.kind != "set":
            return [], []
        for d in acc.variants:
            for k in by_disc.get(d, ()):
                if ins_at[k] < upto:
                    mv.append(k)
        for k in acc.specifics:
            if k in ins_at and ins_at[k] < upto:
                ms.append(k)
        return mv, ms

    # ---- forced-order DAG: ancestors as bitsets, processed in launch order
    idx = {}
    for k in ins_at:
        idx[k] = len(idx)
    anc = {}

    def finished_before(w, seq, specific):
        """Did the scheduler have grounds to consider w done before seq?"""
        o = own(w)
        if specific:
            return w in complete_at and complete_at[w] < seq
        if o in skip_at and skip_at[o][0] < seq:
            return True
        return o in end_at and end_at[o] < seq

    def anc_of_set(keys):
        b = 0
        for w in keys:
            o = own(w)
            b |= 1 << idx[o]
            b |= anc.get(o, 0)
        return b

    # skipped jobs: their "finish" happens inside hs(S)
    def skipped_anc(o):
        s = skip_at[o][1]
        return ((1 << idx[s]) | anc.get(s, 0)) if s is not None else 0

    deps_of = {}
    hsanc = {}
    for k in launch_order:
        acc = launch_acc[k]
        mv, ms = matched(acc, launch_at[k])
        mv = [w for w in mv if own(w) != k]
        ms = [w for w in ms if own(w) != k]
        # invariant (ii): nothing it can read is still unfinished when it is launched
        for w in mv:
            if not finished_before(w, launch_at[k], False):
                viol.append({"kind": "launch", "what": f"{name_of[k]} launched (n={launch_at[k]}) while {name_of[w]} which its read access matches (variant) was inserted and not finished", "job": name_of[k], "dep": name_of[w]})
        for w in ms:
            if not finished_before(w, launch_at[k], True):
                viol.append({"kind": "launch", "what": f"{name_of[k]} launched (n={launch_at[k]}) while {name_of[w]} which its read access names was still pending", "job": name_of[k], "dep": name_of[w]})
        b = 0
        for w in mv + ms:
            o = own(w)
            if o in skip_at and o not in launch_at:
                b |= skipped_anc(o)
            else:
                b |= (1 << idx[o]) | anc.get(o, 0)
        if creator.get(k) is not None:
            c = creator[k]
            b |= (1 << idx[c]) | anc.get(c, 0)
        if k in unblock and unblock[k][0] < launch_at[k]:
            u = unblock[k][1]
            b |= (1 << idx[u]) | anc.get(u, 0)
        anc[k] = b
        deps_of[k] = (mv, ms)
        # handlers this launch is structurally forced to come after: creation, unblocking, specific deps (which need
        # the dependency's completion to be *handled*), inherited through every dependency
        h = 0
        if creator.get(k) is not None:
            h |= (1 << idx[creator[k]]) | hsanc.get(creator[k], 0)
        if k in unblock and unblock[k][0] < launch_at[k]:
            h |= (1 << idx[unblock[k][1]]) | hsanc.get(unblock[k][1], 0)
        for w in ms:
            if own(w) == w:
                h |= 1 << idx[w]
        if acc.kind == "all":
            for w in mv:
                h |= 1 << idx[own(w)]
        for w in mv + ms:
            h |= hsanc.get(own(w), 0)
        hsanc[k] = h

    def ordered(a, b):
        return (anc.get(b, 0) >> idx[a]) & 1 or (anc.get(a, 0) >> idx[b]) & 1

    # ---- every conflicting pair of accesses must be ordered
    job_accesses = defaultdict(list)  # jobkey -> [(item, reads?, writes?)]
    for item, actors in accesses.items():
        jobs_r, jobs_w, hs_r = [], [], []
        for actor, (rs, ws) in actors.items():
            if actor.startswith("job:"):
                jk = id_to_key.get(actor[4:])
                if jk is None:
                    continue
                if rs:
                    jobs_r.append(jk)
                if ws:
                    jobs_w.append(jk)
                job_accesses[jk].append((item, bool(rs), bool(ws)))
            elif actor.startswith("hs:"):
                jk = id_to_key.get(actor[3:])
                if jk is not None and rs:
                    hs_r.append(jk)
        stats["items"] += 1
        for w in jobs_w:
            for o in jobs_w:
                if o < w:
                    stats["pairs_examined"] += 1
                    if not ordered(w, o):
                        viol.append({"kind": "race", "item": name_of[item], "a": name_of[w], "a_op": "W", "b": name_of[o], "b_op": "W",
                                     "what": f"{name_of[w]} and {name_of[o]} both write {name_of[item]} with no forced order"})
            for r in jobs_r:
                if r == w:
                    continue
                stats["pairs_examined"] += 1
                if not ordered(w, r):
                    viol.append({"kind": "race", "item": name_of[item], "a": name_of[w], "a_op": "W", "b": name_of[r], "b_op": "R",
                                 "what": f"{name_of[w]} writes and {name_of[r]} reads {name_of[item]} with no forced order between them"})
        for s in hs_r:
            stats["scheduler_reads"] += 1
            if jobs_w and not any(w == s or (anc.get(s, 0) >> idx[w]) & 1 for w in jobs_w):
                viol.append({"kind": "race", "item": name_of[item], "a": "scheduler hs(" + name_of[s] + ")", "a_op": "R", "b": name_of[jobs_w[0]], "b_op": "W",
                             "what": f"scheduler reads {name_of[item]} while handling {name_of[s]} but no writer of it is forced before that"})
            for w in jobs_w:
                if not (w == s or (anc.get(s, 0) >> idx[w]) & 1):
                    stats["scheduler_reads_unordered"] += 1

    # ---- predictive launch analysis
    writers = defaultdict(list)
    readers = defaultdict(list)
    for jk, accs in job_accesses.items():
        for item, r, w in accs:
            if w:
                writers[item].append(jk)
            if r:
                readers[item].append(jk)
    import bisect
    predicted = set()
    for k in launch_order:
        if kind.get(k) != "work" or k not in job_accesses:
            continue
        lo = bisect.bisect_right(polls, ins_at[k])
        hi = bisect.bisect_left(polls, launch_at[k])
        seen = set()
        hist = acc_hist[k]
        for pi in range(lo, hi):
            m = polls[pi]
            cur = None
            for s, a, _by in hist:
                if s < m:
                    cur = a
            if cur is None or cur.kind in ("unknown",):
                continue
            mv, ms = matched(cur, m)
            mv = [w for w in mv if own(w) != k]
            ms = [w for w in ms if own(w) != k]
            feasible = all((own(w) in launch_at and launch_at[own(w)] < m) or (own(w) in skip_at and skip_at[own(w)][0] < m) for w in mv) and \
                all(w in complete_at and complete_at[w] < m for w in ms)
            if cur.kind == "all":
                feasible = False  # Access::All waits for everything; nothing to predict
            if not feasible:
                continue
            sig = (cur.sig(), tuple(sorted(mv)), tuple(sorted(ms)))
            if sig in seen:
                continue
            seen.add(sig)
            stats["hypothetical_launches"] += 1
            b = 0
            for w in mv + ms:
                o = own(w)
                if o in skip_at and o not in launch_at:
                    b |= skipped_anc(o)
                else:
                    b |= (1 << idx[o]) | anc.get(o, 0)
            if creator.get(k) is not None:
                c = creator[k]
                b |= (1 << idx[c]) | anc.get(c, 0)
            if k in unblock and unblock[k][0] < m:
                u = unblock[k][1]
                b |= (1 << idx[u]) | anc.get(u, 0)
            for item, r, w in job_accesses[k]:
                others = set(writers[item]) | (set(readers[item]) if w else set())
                for o in others:
                    if o == k:
                        continue
                    if (b >> idx[o]) & 1 or (anc.get(o, 0) >> idx[k]) & 1:
                        continue
                    sigv = (k, o, item)
                    if sigv in predicted:
                        continue
                    predicted.add(sigv)
                    viol.append({"kind": "predicted-race", "item": name_of[item], "a": name_of[k], "b": name_of[o], "poll": m,
                                 "what": f"{name_of[k]} could already be launched at poll n={m} (read access then satisfied by jobs merely launched), "
                                         f"where its access to {name_of[item]} is not ordered with {name_of[o]}"})
    # ---- dynamic-dependency rule: a job W created while handling S; every job J ordered after W only by a
    # dependency that matches W must be unable to launch before hs(S) has inserted W
    def access_before(k, seq):
        cur = None
        for s_, a, _by in acc_hist[k]:
            if s_ < seq:
                cur = a
        return cur
    for w_job, s_job in creator.items():
        if s_job is None or kind.get(w_job) == "also" or w_job not in job_accesses or s_job not in hs_begin_at:
            continue
        hb = hs_begin_at[s_job]
        for item, r, wr in job_accesses[w_job]:
            others = set(writers[item]) | (set(readers[item]) if wr else set())
            for j in others:
                if j == w_job or not ((anc.get(j, 0) >> idx[w_job]) & 1):
                    continue  # only pairs really ordered W => J
                if ins_at[j] > hb:
                    continue  # inserted by/after the handler
                stats["dynamic_pairs_examined"] += 1
                a_pre = access_before(j, hb)
                if a_pre is None or a_pre.kind in ("unknown", "all"):
                    continue
                mv0, ms0 = matched(a_pre, hb)
                safe = s_job in ms0
                if not safe:
                    for d in mv0 + ms0:
                        o = own(d)
                        if o != j and (hsanc.get(o, 0) >> idx[s_job]) & 1:
                            safe = True
                            break
                if not safe and (hsanc.get(j, 0) >> idx[s_job]) & 1 and creator.get(j) is not None:
                    safe = True
                if safe:
                    continue
                sigv = (j, w_job, item)
                if sigv in predicted:
                    continue
                predicted.add(sigv)
                viol.append({"kind": "predicted-race", "item": name_of[item], "a": name_of[j], "b": name_of[w_job], "poll": hb,
                             "what": f"{name_of[j]} accesses {name_of[item]} of {name_of[w_job]}, a job only created while handling {name_of[s_job]}; "
                                     f"with the read access it had before that ({a_pre.sig()[0]}, matched jobs all able to finish earlier) it could be launched "
                                     f"before {name_of[w_job]} exists"})

    # ---- every job that ended decremented before it sent (monitor self-check) and finished
    stats["launches"] = len(launch_order)
    stats["polls"] = len(polls)
    import hashlib
    stats_sig = hashlib.sha1("\n".join(launch_order).encode()).hexdigest()[:16]
    return {"violations": viol, "stats": dict(stats), "launch_sig": stats_sig}


if __name__ == "__main__":
    import sys
    r = check(sys.argv[1])
    print(json.dumps(r["stats"]))
    for v in r["violations"][:20]:
        print(v["kind"], v["what"])
