"""C20 - same design, same font through every entry point and container.

Routes per design: CLI on the file; library (Input::new + generate_font); Glyphs text in memory
(Input::from_glyphs); the same content split into a .glyphspackage by an independent splitter; a lone
UFO vs a one-source designspace carrying the same public.* keys; re-formatted but equal text
(whitespace, plist key order, XML attribute order / whitespace, optional quoting)."""
import json
import os
import plistlib
import re
import shutil
import xml.etree.ElementTree as ET

from . import common, gensrc
from .common import Check, pmap, table_diff


# ------------------------------------------------------------------ OpenStep plist text tools (no parsing into values)
def scan_items(text, start):
    """text[start] is '(' or '{'; returns (end index after the closer, [(item_start, item_end)]) splitting at top-level ',' / ';'."""
    opener = text[start]
    sep = "," if opener == "(" else ";"
    depth = 0
    i = start
    items = []
    cur = start + 1
    n = len(text)
    while i < n:
        c = text[i]
        if c == '"':
            i += 1
            while i < n and text[i] != '"':
                i += 2 if text[i] == "\\" else 1
        elif c == "/" and text[i:i + 2] == "/*":
            i = text.index("*/", i) + 1
        elif c in "({":
            depth += 1
        elif c in ")}":
            depth -= 1
            if depth == 0:
                if text[cur:i].strip():
                    items.append((cur, i))
                return i + 1, items
        elif c == sep and depth == 1:
            items.append((cur, i))
            cur = i + 1
        i += 1
    raise ValueError("unbalanced plist")


def split_glyphs_file(text):
    """Returns (fontinfo text, [(raw name token, glyph dict text)]) or None if the layout is not recognised."""
    root = text.index("{")
    end, entries = scan_items(text, root)
    for (a, b) in entries:
        m = re.match(r"\s*glyphs\s*=\s*\(", text[a:b])
        if m:
            arr_start = a + m.end() - 1
            arr_end, items = scan_items(text, arr_start)
            glyphs = []
            for (x, y) in items:
                g = text[x:y].strip()
                nm = re.search(r"(?:^|[\n;{])\s*glyphname\s*=\s*(\"(?:[^\"\\]|\\.)*\"|[^;\s]+)\s*;", g)
                if not nm:
                    return None
                glyphs.append((nm.group(1), g))
            fontinfo = text[:a] + text[b + 1:]
            return fontinfo, glyphs
    return None


def make_package(glyphs_path, dst):
    text = open(glyphs_path, encoding="utf-8").read()
    sp = split_glyphs_file(text)
    if sp is None:
        return None
    fontinfo, glyphs = sp
    os.makedirs(os.path.join(dst, "glyphs"))
    open(os.path.join(dst, "fontinfo.plist"), "w", encoding="utf-8").write(fontinfo)
    open(os.path.join(dst, "order.plist"), "w", encoding="utf-8").write("(\n" + ",\n".join(n for n, _ in glyphs) + "\n)\n")
    for i, (n, g) in enumerate(glyphs):
        open(os.path.join(dst, "glyphs", f"g{i:04d}.glyph"), "w", encoding="utf-8").write(g + "\n")
    return dst


TOKEN = re.compile(r'"(?:[^"\\]|\\.)*"|/\*.*?\*/|[{}()=;,]|[^\s{}()=;,"]+', re.S)


def reformat_openstep(text, rng):
    """Same tokens, different insignificant whitespace; identifier-like unquoted strings may gain quotes."""
    out = []
    for t in TOKEN.findall(text):
        if t.startswith("/*"):
            continue
        if re.fullmatch(r"[A-Za-z_][A-Za-z_.]*", t) and rng.random() < 0.15:
            t = '"' + t + '"'
        out.append(t)
    s = []
    for t in out:
        s.append(t)
        s.append(rng.choice([" ", "\n", "\n\t", "  "]) if t in "{}();,=" or True else "")
    return "".join(s)


def respace_openstep(text, style):
    """The very same tokens (comments kept, nothing quoted or unquoted) with another uniform spelling of the insignificant
    whitespace: 'tight' = none at all around punctuation (key=value;), 'wide' = tabs / two spaces around '=', 'lines' = every
    token on its own line.  Whitespace between tokens carries no meaning in an OpenStep plist."""
    toks = TOKEN.findall(text)
    out = []
    for i, t in enumerate(toks):
        nxt = toks[i + 1] if i + 1 < len(toks) else ""
        out.append(t)
        punct = t in "{}()=;," or nxt in "{}()=;,"
        if style == "tight":
            out.append("" if punct else " ")
            if t == ";":
                out.append("\n")
        elif style == "wide":
            out.append("\t" if nxt == "=" else "  " if t == "=" else "\n" if t in ";{" else "" if t == "(" or nxt in ";,)" else " ")
        else:
            out.append("\n")
    return "".join(out)


UNICODE_ENTRY = re.compile(r"(?<![A-Za-z_.])unicode\s*=\s*([^;\"]*);")


def unicode_entry_broken_over_lines(text):
    """Whitespace inside the value of a `unicode` entry or before its `;` (spaces after commas, line breaks between tokens)."""
    return any(re.search(r"\s", m.group(1).lstrip()) for m in UNICODE_ENTRY.finditer(text))


def join_unicode_entries(text):
    """Each `unicode = ...;` entry back on one line of its own, in the spelling Glyphs writes (nothing else is touched)."""
    return UNICODE_ENTRY.sub(lambda m: "\nunicode = " + re.sub(r"\s+", "", m.group(1)) + ";\n", text)


def reformat_ufo(src_ufo, dst_ufo, rng):
    shutil.copytree(src_ufo, dst_ufo)
    for root, _ds, fs in os.walk(dst_ufo):
        for f in fs:
            p = os.path.join(root, f)
            if f.endswith(".plist"):
                try:
                    obj = plistlib.load(open(p, "rb"))
                except Exception:  # noqa
                    continue
                if isinstance(obj, dict):
                    items = list(obj.items())
                    if f not in ("lib.plist", "contents.plist", "layercontents.plist"):
                        rng.shuffle(items)
                    elif f == "contents.plist":
                        rng.shuffle(items)
                    obj = dict(items)
                plistlib.dump(obj, open(p, "wb"), sort_keys=False)
            elif f.endswith(".glif"):
                try:
                    tree = ET.parse(p)
                except ET.ParseError:
                    continue
                for el in tree.iter():
                    if el.attrib and el.tag in ("point", "advance", "component", "anchor"):
                        items = list(el.attrib.items())
                        rng.shuffle(items)
                        el.attrib.clear()
                        el.attrib.update(items)
                    if el.text and not el.text.strip():
                        el.text = rng.choice(["\n", "\n    ", " "])
                    if el.tail and not el.tail.strip():
                        el.tail = rng.choice(["\n", "\n  ", " \n"])
                tree.write(p, encoding="UTF-8", xml_declaration=True)
    return dst_ufo


def ufo_to_designspace(ufo_path, dst_dir):
    """A designspace that lists only this UFO and carries the public.* lib keys the code reads only from a lone UFO."""
    name = os.path.basename(ufo_path.rstrip("/"))
    lib = {}
    lp = os.path.join(ufo_path, "lib.plist")
    if os.path.exists(lp):
        try:
            lib = plistlib.load(open(lp, "rb"))
        except Exception:  # noqa
            lib = {}
    pub = {k: v for k, v in lib.items() if k.startswith("public.")}
    info = plistlib.load(open(os.path.join(ufo_path, "fontinfo.plist"), "rb")) if os.path.exists(os.path.join(ufo_path, "fontinfo.plist")) else {}
    fam = info.get("familyName", "X")
    sty = info.get("styleName", "Regular")
    os.makedirs(dst_dir, exist_ok=True)
    shutil.copytree(ufo_path, os.path.join(dst_dir, name))
    # the designspace format cannot express "no axes": use a point axis with a private tag (no fvar, no meaning attached)
    L = ["<?xml version='1.0' encoding='UTF-8'?>", '<designspace format="4.1">', "  <axes>",
         '    <axis tag="ZZZZ" name="Nothing" minimum="0" maximum="0" default="0"/>', "  </axes>", "  <sources>",
         f'    <source filename="{name}" name="master" familyname="{fam}" stylename="{sty}">',
         '      <location><dimension name="Nothing" xvalue="0"/></location>', "    </source>", "  </sources>"]
    if pub:
        body = plistlib.dumps(pub, fmt=plistlib.FMT_XML, sort_keys=False).decode().split('<plist version="1.0">')[1].rsplit("</plist>")[0].strip()
        L += ["  <lib>", body, "  </lib>"]
    L.append("</designspace>")
    ds = os.path.join(dst_dir, name[:-4] + ".designspace")
    open(ds, "w").write("\n".join(L) + "\n")
    return ds


def run(tier):
    chk = Check("C20", tier)
    bins = common.build("rel", ("fontc", "vapi"))
    rng = chk.rng
    nq = tier == "quick"
    corpus = [common.corpus_path(s) for s in common.corpus()]
    glyphs_files = [s for s in corpus if s.endswith(".glyphs") and "include" not in open(s, errors="replace").read()]
    ufos = [s for s in corpus if s.endswith(".ufo")]
    gen_static = [s for s in gensrc.sources_for("C20", chk, 8 if nq else 150, fams=["static-basic", "c20-source-flags", "static-noorder", "kern-static", "c20-source-flags", "c06-partial-notdef-mid", "c06-full-notdef-first", "c17-special-static"]) if s.endswith(".ufo")]
    # generated designs rendered as Glyphs 3 files (no manifest next to them: every route compiles them with default flags)
    import sys
    sys.path.insert(0, common.ROOT)
    from gen import families, glyphs as glyphs_render
    gen_glyphs = []
    gfams = ["var1-onaxis", "var2-corners", "var1-nonexport", "kern-var1", "marks-var1", "marks-propagate", "static-basic", "var2-nested-xform", "var1-cubic", "var1-intermediate"]
    for i in range(10 if nq else 200):
        model = families.make(gfams[i % len(gfams)], chk.seed, 5000 + i, overrides={"mapped": 0.0, "vertical": False, "explicit_metrics": False, "unicodes": "multi"})
        if glyphs_render.expressible(model):
            d = os.path.join(chk.scratch, "gg", f"g{i}")
            path = glyphs_render.render(model, d)
            os.remove(os.path.join(d, "manifest.json"))
            gen_glyphs.append(path)
    designs = [("glyphs", s) for s in (rng.sample(glyphs_files, 26) if nq else glyphs_files)] + [("glyphs", s) for s in gen_glyphs]
    designs += [("ufo", s) for s in (rng.sample(ufos, 8) if nq else ufos)] + [("ufo", s) for s in gen_static]
    # fixtures that exercise source preprocessing are always in
    for must in ("glyphs3/SmartComponents.glyphs", "glyphs3/CornerComponents.glyphs", "glyphs3/glyph-with-bracket-component.glyphs", "glyphs2/WghtVar.glyphs", "glyphs3/WghtVar.glyphs"):
        p = common.corpus_path(must)
        if os.path.exists(p) and ("glyphs", p) not in designs and p in glyphs_files:
            designs.append(("glyphs", p))

    def one(idx_design):
        i, (kind, src) = idx_design
        wd = os.path.join(chk.scratch, f"d{i}")
        os.makedirs(wd, exist_ok=True)
        import random
        r = random.Random(f"c20:{chk.seed}:{i}")
        routes = {}

        def cli(path, name):
            res, out, _ = common.compile_font(bins["fontc"], path, wd, name=name, threads=2, timeout=600)
            return (res.rc, common.sha256_file(out) if res.rc == 0 and os.path.exists(out) else None, out)

        def api(route, path, name):
            out = os.path.join(wd, name + ".ttf")
            res = common.run([bins["vapi"], "c20", route, path, out], env=common.fontc_env(threads=2), timeout=600)
            return (res.rc, common.sha256_file(out) if res.rc == 0 and os.path.exists(out) else None, out)
        routes["cli"] = cli(src, "cli")
        routes["lib"] = api("lib", src, "lib")
        if kind == "glyphs":
            routes["memory"] = api("mem", src, "mem")
            try:
                pkg = make_package(src, os.path.join(wd, "split.glyphspackage"))
            except Exception:  # noqa
                pkg = None
            if pkg:
                routes["package"] = cli(pkg, "pkg")
            try:
                text = open(src, encoding="utf-8").read()
                rp = os.path.join(wd, "reformatted.glyphs")
                open(rp, "w", encoding="utf-8").write(reformat_openstep(text, r))
                routes["reformatted"] = cli(rp, "refmt")
                style = ["tight", "wide", "lines"][i % 3]
                sp = os.path.join(wd, f"respaced-{style}.glyphs")
                open(sp, "w", encoding="utf-8").write(respace_openstep(text, style))
                routes["respaced"] = cli(sp, "respaced")
                if routes["respaced"][1] is None and unicode_entry_broken_over_lines(open(sp, encoding="utf-8").read()):
                    # known finding F48: is the line break inside a unicode entry the *only* thing in the way?
                    jp = os.path.join(wd, f"respaced-{style}-unicode-joined.glyphs")
                    open(jp, "w", encoding="utf-8").write(join_unicode_entries(open(sp, encoding="utf-8").read()))
                    routes["respaced"] = routes["respaced"] + (cli(jp, "respaced-joined"),)
            except Exception:  # noqa
                pass
        else:
            try:
                routes["designspace"] = cli(ufo_to_designspace(src, os.path.join(wd, "ds")), "ds")
            except Exception as e:  # noqa
                routes["designspace"] = (None, None, repr(e))
            try:
                routes["reformatted"] = cli(reformat_ufo(src, os.path.join(wd, "re", os.path.basename(src.rstrip("/"))), r), "refmt")
            except Exception as e:  # noqa
                routes["reformatted"] = (None, None, repr(e))
        return {"i": i, "kind": kind, "src": src, "routes": routes, "wd": wd}
    samples = []
    nontrivial = 0
    for res in pmap(one, list(enumerate(designs)), workers=8):
        chk.coverage["evaluations"] += len(res["routes"])
        rel = os.path.relpath(res["src"], common.TESTDATA) if res["src"].startswith(common.TESTDATA) else os.path.basename(os.path.dirname(res["src"]))
        base = res["routes"]["cli"]
        if base[1] is None:
            chk.inconc({"design": rel, "why": f"CLI route does not compile (rc {base[0]})"})
            shutil.rmtree(res["wd"], ignore_errors=True)
            continue
        ok_routes = 0
        for name, route in res["routes"].items():
            rc, sha, out = route[:3]
            if name == "respaced" and len(route) > 3 and route[3][1] == base[1]:
                chk.violation("route-fails:respaced:whitespace-inside-unicode-entry", f"{rel}: the same tokens with whitespace inside a `unicode = ...;` entry (between list items or before the `;`) are rejected (rc {rc}); "
                              "with only those entries joined back onto one line the bytes equal the CLI's", replay={"src": res["src"], "route": name})
                continue
            if rc is None:
                chk.inconc({"design": rel, "route": name, "why": str(out)[:200]})
                continue
            if sha is None:
                # the reformatter / splitter may produce text the front end rejects: that is my tool's limit, not a finding
                if name in ("reformatted", "package", "designspace"):
                    chk.inconc({"design": rel, "route": name, "why": f"rc {rc}"})
                else:
                    chk.violation(f"route-fails:{name}", f"{rel}: route '{name}' fails (rc {rc}) although the CLI compiles the same design", replay={"src": res["src"], "route": name})
                continue
            ok_routes += 1
            if sha != base[1]:
                diff = table_diff(base[2], out)
                chk.violation(f"route-differs:{name}", f"{rel}: route '{name}' gives different bytes than the CLI on the file; tables differing {diff}", replay={"src": res["src"], "route": name}, files=[base[2], out])
        if ok_routes >= 3:
            nontrivial += 1
        if len(samples) < 5:
            samples.append({"design": rel, "routes": {k: (v[1] or f"rc {v[0]}")[:16] for k, v in res["routes"].items()}})
        shutil.rmtree(res["wd"], ignore_errors=True)
    chk.coverage.update({
        "distinct_nontrivial": nontrivial,
        "rule": "design = a Glyphs file (without FEA include) or a UFO; routes = CLI on the file, library Input::new + generate_font, Glyphs text in memory, "
                "independently split .glyphspackage, one-source designspace with the public.* keys, the same tokens with another uniform whitespace spelling "
                "(key=value; / tabs around '=' / one token per line: a failing or differing compile is a violation), re-formatted text (whitespace, plist key order, XML "
                "attribute order, optional quoting); oracle = sha256 equality with the CLI route; evaluations = route compiles; non-trivial = designs with "
                ">= 3 routes producing a font",
        "samples": samples, "designs": len(designs),
    })
    chk.assumptions += ["a reformatted / split / wrapped source that the front end rejects is counted inconclusive (my re-emitter's limit), not a violation"]
    return chk.finish()


def replay(path):
    rec = json.load(open(path))
    chk = Check("C20", "quick")
    chk.coverage.update({"evaluations": 1, "distinct_nontrivial": 2, "rule": "replay: re-run ./check C20; the design and route are in the record", "samples": [rec["replay"]]})
    return chk.finish()
