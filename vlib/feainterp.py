"""Direct interpreter of a feature-file AST (gen/fea.py) under the feature-file specification.

elaborate(prog) -> lookups in declaration order + (script, lang, feature) -> lookup ids
shape(model, glyph string, script, lang, features) -> (glyphs, positions)

Nothing here looks at what fea-rs produced: it is the "what the source says" side of C11."""


class Model:
    def __init__(self, prog):
        self.prog = prog
        self.gid = {g: i for i, g in enumerate(prog["glyphs"])}
        self.cls = {}  # glyph -> 1 base 2 lig 3 mark
        if prog["gdef"]:
            for k, c in (("base", 1), ("lig", 2), ("mark", 3)):
                for g in prog["gdef"][k]:
                    self.cls[g] = c
        self.lookups = []  # {"kind","type","flag","rules"}
        self.named = {}
        self.features = {}  # (script, lang, tag) -> [lookup ids]
        self.declared = [tuple(x) for x in prog["langsys"]] or [("DFLT", "dflt")]
        self._ambiguous = False
        self._elaborate()

    # ------------------------------------------------------------------ elaboration
    def _new(self, typ, flag, rules=None):
        kind = "gpos" if typ.startswith(("pos", "mark")) else "gsub"
        self.lookups.append({"kind": kind, "type": typ, "flag": flag, "rules": list(rules or [])})
        return len(self.lookups) - 1

    def _define(self, l):
        lid = None
        for r in l["rules"]:
            lid = self._add_rule(lid, r, l["flag"], lambda _lid: None)
        self.named[l["name"]] = lid
        return lid

    def _add_rule(self, cur, r, flag, add):
        """Append a rule to the current lookup or open a new one.  Runs of single + multiple substitutions form one
        multiple-substitution lookup and runs of single + ligature substitutions one ligature lookup (a single
        substitution is a one-glyph sequence / one-component ligature) - the promotion rule feature-file compilers
        implement; every other change of rule type opens a new lookup."""
        t = r["t"]
        as_multi = lambda x: [{"t": "multi", "from": a, "to": [b]} for a, b in x["map"]]  # noqa: E731
        as_lig = lambda x: [{"t": "lig", "comps": [[a]], "to": b} for a, b in x["map"]]  # noqa: E731
        if cur is not None:
            L = self.lookups[cur]
            ct = L["type"]
            if ct == t:
                L["rules"].append(r)
                return cur
            if t == "single" and ct == "multi":
                L["rules"] += as_multi(r)
                return cur
            if t == "single" and ct == "lig":
                L["rules"] += as_lig(r)
                return cur
            if t == "multi" and ct == "single":
                L["rules"] = [m for x in L["rules"] for m in as_multi(x)] + [r]
                L["type"] = "multi"
                return cur
            if t == "lig" and ct == "single":
                L["rules"] = [m for x in L["rules"] for m in as_lig(x)] + [r]
                L["type"] = "lig"
                return cur
        cur = self._new(t, flag)
        add(cur)
        self.lookups[cur]["rules"].append(r)
        return cur

    def ambiguous(self):
        """Programs whose meaning the specification does not pin down: two rules of one lookup with the same key."""
        if self._ambiguous:
            return True
        for L in self.lookups:
            if L["type"] == "pos2":
                # class pairs are only determined when each side's classes form a partition, and no glyph pair repeats
                for side in ("first", "second"):
                    cl = [frozenset(r[side]) for r in L["rules"] if r["cls"]]
                    for i, a in enumerate(cl):
                        for b in cl[i + 1:]:
                            if a != b and a & b:
                                return True
                pairs = set()
                for r in L["rules"]:
                    for a in r["first"]:
                        for b in r["second"]:
                            if (a, b, r["cls"]) in pairs:
                                return True
                            pairs.add((a, b, r["cls"]))
            seen = set()
            for r in L["rules"]:
                t = r["t"]
                keys = []
                if t == "single":
                    keys = [a for a, _ in r["map"]]
                elif t in ("multi", "alt"):
                    keys = [r["from"]]
                elif t == "lig":
                    keys = self._expand(r["comps"])
                elif t == "pos1":
                    keys = r["glyphs"]
                elif t in ("markbase", "markmark", "marklig"):
                    keys = r["glyphs"]
                for k in keys:
                    if k in seen:
                        return True
                    seen.add(k)
        return False

    def _elaborate(self):
        zero = {"ignore": [], "attach": None, "filter": None}
        for item in self.prog["items"]:
            if item[0] == "lookup":
                self._define(item[1])
                continue
            _, tag, body = item
            blocks = [it for it in self.prog["items"] if it[0] == "feature" and it[1] == tag]
            if len(blocks) > 1 and any(st[0] == "script" for b in blocks for st in b[2]):
                # a feature opened twice with script/language statements: what the second block inherits is not settled
                self._ambiguous = True
            systems = list(self.declared)
            script = None
            flag = zero
            cur = None

            def add(lid):
                for (s, l) in systems:
                    lst = self.features.setdefault((s, l, tag), [])
                    if lid not in lst:
                        lst.append(lid)

            def set_language(lang, include):
                nonlocal systems
                key = (script, lang, tag)
                base = self.features.get((script, "dflt", tag))
                if (lang == "dflt" or include) and base:
                    self.features[key] = list(base)
                else:
                    self.features[key] = []
                systems = [(script, lang)]

            pending = None
            for st in body:
                k = st[0]
                if k != "rule" and k != "ref":
                    pending = None
                if k == "script":
                    if systems == [(st[1], "dflt")]:
                        # a script statement naming the only language system already in force: whether it closes the
                        # current lookup is not settled by the specification (feaLib continues it) - not judged
                        self._ambiguous = True
                        script = st[1]
                        continue
                    cur = None
                    script = st[1]
                    flag = zero
                    set_language("dflt", True)
                elif k == "language":
                    cur = None
                    set_language(st[1], st[2])
                elif k == "lookupflag":
                    flag = st[1]
                    cur = None
                elif k == "rule":
                    r = st[1]
                    if pending is not None:
                        # rules before and after a `lookup X;` reference that could share one lookup: whether the
                        # reference closes the current lookup is not settled (feaLib closes it, fea-rs continues it)
                        pt, t = self.lookups[pending]["type"], r["t"]
                        merge = {("single", "multi"), ("multi", "single"), ("single", "lig"), ("lig", "single")}
                        if self.lookups[pending]["flag"] == flag and (pt == t or (pt, t) in merge):
                            self._ambiguous = True
                        pending = None
                    cur = self._add_rule(cur, r, flag, add)
                elif k == "ref":
                    pending = cur if cur is not None else pending
                    cur = None
                    add(self.named[st[1]])
                elif k == "block":
                    cur = None
                    add(self._define(st[1]))
        # a system with an empty lookup list still exists

    def systems(self):
        return sorted({(s, l) for (s, l, _t) in self.features})

    def lookups_for(self, script, lang, kind, only=None):
        """Shaper-side selection in the table of `kind`: a language system exists there iff one of its features has a
        lookup of that kind; unknown language -> the script's default; unknown script -> DFLT."""
        have = {(s, l) for (s, l, _t), ids in self.features.items() if any(self.lookups[i]["kind"] == kind for i in ids)}
        scripts = {s for (s, _l) in have}
        if script not in scripts:
            script = "DFLT"
        if script not in scripts:
            return []
        if (script, lang) not in have:
            lang = "dflt"
        if (script, lang) not in have:
            return []
        out = set()
        for (s, l, t), ids in self.features.items():
            if s == script and l == lang and (only is None or t in only):
                out.update(i for i in ids if self.lookups[i]["kind"] == kind)
        return sorted(out)

    def feature_tags(self):
        return sorted({t for (_s, _l, t) in self.features})

    # ------------------------------------------------------------------ application
    def skip(self, g, flag):
        c = self.cls.get(g, 0)
        ig = flag["ignore"]
        if c == 1 and "base" in ig:
            return True
        if c == 2 and "lig" in ig:
            return True
        if c == 3:
            if "mark" in ig:
                return True
            if flag["filter"] and g not in self.prog["classes"][flag["filter"]]:
                return True
            if flag["attach"] and g not in self.prog["classes"][flag["attach"]]:
                return True
        return False

    def nxt(self, buf, i, flag):
        for j in range(i + 1, len(buf)):
            if not self.skip(buf[j], flag):
                return j
        return None

    def prv(self, buf, i, flag):
        for j in range(i - 1, -1, -1):
            if not self.skip(buf[j], flag):
                return j
        return None

    def apply_lookup(self, lid, buf, pos, alt_index=1):
        l = self.lookups[lid]
        i = 0
        while i < len(buf):
            if self.skip(buf[i], l["flag"]):
                i += 1
                continue
            n = self.apply_at(lid, buf, pos, i, 0, alt_index)
            i = n if n is not None else i + 1

    def apply_at(self, lid, buf, pos, i, depth, alt_index=1):
        l = self.lookups[lid]
        flag = l["flag"]
        g = buf[i]
        t = l["type"]
        if t == "single":
            for r in l["rules"]:
                for a, b in r["map"]:
                    if a == g:
                        buf[i] = b
                        return i + 1
            return None
        if t == "multi":
            for r in l["rules"]:
                if r["from"] == g:
                    buf[i:i + 1] = r["to"]
                    pos[i:i + 1] = [pos[i]] + [[0, 0, 0, 0] for _ in r["to"][1:]]
                    return i + len(r["to"])
            return None
        if t == "alt":
            for r in l["rules"]:
                if r["from"] == g:
                    if alt_index - 1 < len(r["to"]):
                        buf[i] = r["to"][alt_index - 1]
                    return i + 1
            return None
        if t == "lig":
            # the compiler must order ligatures so that longer ones are tried first; ties keep source order
            cands = []
            for n, r in enumerate(l["rules"]):
                for seq in self._expand(r["comps"]):
                    if seq[0] == g:
                        cands.append((-len(seq), n, seq, r["to"]))
            cands.sort(key=lambda c: (c[0], c[1]))
            for _ln, _n, seq, to in cands:
                where = [i]
                j = i
                ok = True
                for c in seq[1:]:
                    j = self.nxt(buf, j, flag)
                    if j is None or buf[j] != c:
                        ok = False
                        break
                    where.append(j)
                if not ok:
                    continue
                for p in reversed(where[1:]):
                    del buf[p]
                    del pos[p]
                buf[i] = to
                return where[-1] + 1 - (len(where) - 1)
            return None
        if t in ("ctx", "posctx"):
            for r in l["rules"]:
                m = self._match_ctx(r, buf, i, flag)
                if m is None:
                    continue
                inp = m
                end = inp[-1] + 1
                if r.get("ignore"):
                    return end
                if r.get("inline_lig"):
                    # ligature over the marked sequence, applied with the contextual lookup's flag
                    for p in reversed(inp[1:]):
                        del buf[p]
                        del pos[p]
                    buf[inp[0]] = r["inline_lig"]
                    return end - (len(inp) - 1)
                if depth >= 6:
                    return end
                for k, (s, act) in enumerate(r["input"]):
                    if not act:
                        continue
                    p = inp[k]
                    if p >= len(buf):
                        continue
                    before = len(buf)
                    if act[0] == "lookup":
                        self.apply_at(self.named[act[1]], buf, pos, p, depth + 1, alt_index)
                    elif act[0] == "single":
                        for a, b in act[1]:
                            if a == buf[p]:
                                buf[p] = b
                                break
                    elif act[0] == "value":
                        for q in range(4):
                            pos[p][q] += act[1][q]
                    delta = len(buf) - before
                    if delta:
                        inp = [q + delta if q > p else q for q in inp]
                        inp = [max(q, p) for q in inp]
                        end = max(end + delta, i + 1)
                return end
            return None
        if t in ("markbase", "markmark", "marklig"):
            return None  # attachment is compared at table level (attachments()), not through the glyph buffer
        if t == "pos1":
            for r in l["rules"]:
                if g in r["glyphs"]:
                    for q in range(4):
                        pos[i][q] += r["value"][q]
                    return i + 1
            return None
        if t == "pos2":
            j = self.nxt(buf, i, flag)
            if j is None:
                return None
            h = buf[j]
            for r in l["rules"]:
                if not r["cls"] and g in r["first"] and h in r["second"]:
                    for q in range(4):
                        pos[i][q] += r["value"][q]
                    return j
            for r in l["rules"]:
                if r["cls"] and g in r["first"] and h in r["second"]:
                    for q in range(4):
                        pos[i][q] += r["value"][q]
                    return j
            return None
        raise ValueError(t)

    @staticmethod
    def _expand(comps):
        out = [()]
        for c in comps:
            out = [o + (x,) for o in out for x in c]
        return out

    def _match_ctx(self, r, buf, i, flag):
        inp = [i]
        if buf[i] not in r["input"][0][0]["g"]:
            return None
        j = i
        for s, _a in r["input"][1:]:
            j = self.nxt(buf, j, flag)
            if j is None or buf[j] not in s["g"]:
                return None
            inp.append(j)
        b = i
        for s in reversed(r["back"]):  # nearest first
            b = self.prv(buf, b, flag)
            if b is None or buf[b] not in s["g"]:
                return None
        a = j
        for s in r["ahead"]:
            a = self.nxt(buf, a, flag)
            if a is None or buf[a] not in s["g"]:
                return None
        return inp

    def attachments(self, script, lang, only, base, mark, comp=None):
        """What the active mark lookups, in order, attach for (base or ligature component, mark): (kind, base anchor, mark anchor)."""
        out = []
        mc = self.prog.get("markclasses", {})
        for lid in self.lookups_for(script, lang, "gpos", only):
            L = self.lookups[lid]
            t = L["type"]
            if t not in ("markbase", "markmark", "marklig") or (t == "marklig") != (comp is not None):
                continue
            hit = None
            for r in L["rules"]:
                if base not in r["glyphs"]:
                    continue
                att = r["att"] if t != "marklig" else (r["comps"][comp] if comp < len(r["comps"]) else [])
                for cname, banchor in att:
                    for gl, manchor in mc.get(cname, []):
                        if mark in gl:
                            hit = ({"markbase": "base", "markmark": "mark", "marklig": "lig"}[t], tuple(banchor), tuple(manchor))
                if hit:
                    break
            # the mark must be one of the lookup's marks at all: every class a rule of this lookup names contributes its marks
            if hit:
                out.append(hit)
        return out

    def shape(self, glyphs, script, lang, only=None, alt_index=1):
        buf = list(glyphs)
        pos = [[0, 0, 0, 0] for _ in buf]
        for lid in self.lookups_for(script, lang, "gsub", only):
            self.apply_lookup(lid, buf, pos, alt_index)
        pos = [[0, 0, 0, 0] for _ in buf]
        for lid in self.lookups_for(script, lang, "gpos", only):
            self.apply_lookup(lid, buf, pos, alt_index)
        return buf, pos
