"""C07 - the variation model reproduces its masters and builds valid regions (in-process API monitor)."""
import json

from . import apirun, common
from .common import Check


def run(tier):
    chk = Check("C07", tier)
    vapi = common.build("rel", ("vapi",))["vapi"]
    n = 1500 if tier == "quick" else 125000
    seeds = [chk.seed * 100 + k for k in range(16)]
    tot = {"layouts": 0, "nontrivial": 0, "regions": 0, "scalars_checked": 0, "masters_checked": 0}
    samples = []
    for seed, res, err in apirun.run_children(vapi, "c07", seeds, n, hash_seed=True):
        if res is None:
            # a child that dies (abort, memory) on some layout is itself a finding of the monitored API
            if err == "watchdog":
                chk.inconc({"seed": seed, "why": err})
            else:
                chk.violation("child-died", f"vapi c07 seed {seed}: {err}", replay={"seed": seed, "n": n})
            continue
        for k in tot:
            tot[k] += res.get(k, 0)
        if res.get("sample") and len(samples) < 3:
            samples.append(res["sample"])
        for v in res["violations"]:
            what = v["what"]
            import re
            sig = re.sub(r"[-+\d.e\[\](), ]+", " ", what)[:60].strip()
            chk.violation(f"c07:{sig}", what, replay=v["layout"])
    chk.coverage.update({
        "evaluations": tot["layouts"], "distinct_nontrivial": tot["nontrivial"],
        "rule": "layouts = random location sets (1-4 axes; on-axis chains, corners, shared peaks, grid, interior + near-duplicates, one-sided axes) "
                "with random/tie values, through VariationModel::new + deltas_with_rounding (none / ties-even) + interpolate_from_deltas; non-trivial = "
                "distinct layout with an interior or off-axis master and non-zero deltas. Checked: master reconstruction (1e-9 / 0.5), default exact, "
                "tent validity, scalars in [0,1] and equal to an independent implementation of the spec formula, independence of supply order",
        "samples": samples, "regions_checked": tot["regions"], "scalars_checked": tot["scalars_checked"], "master_reconstructions": tot["masters_checked"],
    })
    return chk.finish()


def replay(path):
    rec = json.load(open(path))
    lay = rec["replay"]
    chk = Check("C07", "quick")
    vapi = common.build("rel", ("vapi",))["vapi"]
    seed, n = lay.get("seed", 1), lay.get("case", 0) + 1
    for s, res, err in apirun.run_children(vapi, "c07", [seed], n):
        for v in (res or {}).get("violations", []):
            chk.violation("c07:replay", v["what"], replay=v["layout"])
    chk.coverage.update({"evaluations": n, "distinct_nontrivial": 2, "rule": "replay of the generating seed up to the failing case", "samples": [lay]})
    return chk.finish()
