"""C09 - kerning in the font equals the UFO kerning lookup on each master's own kerning and groups."""
from . import srccheck

OPTS = [(), (), ("--no-production-names",), ("--flatten-components",)]
RULE = ("generated sources with UFO kerning (glyph and group pairs, glyph-vs-group exceptions both ways, zero-valued pairs, .5 ties, per-master "
        "divergent / missing groups, pairs present in only some masters, a master without kerning, >256 pairs, 1-3 axes incl. intermediate masters); "
        "for every master that defines kerning and every ordered pair of exported glyphs the kern lookups reachable under DFLT/dflt and latn/dflt are "
        "applied by an independent PairPos + VariationIndex evaluator at the master's location and compared with the UFO lookup algorithm on that "
        "master's own kerning.plist/groups.plist, rounded (+-1 only when a contributing region scalar is fractional); non-trivial = pair evaluations "
        "whose expected value is non-zero")


def run(tier):
    return srccheck.run_prop("C09", tier, 16, 320, OPTS, None, "c09_nontrivial", RULE)


def replay(path):
    return srccheck.replay_prop("C09", path)
