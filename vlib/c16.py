"""C16 - conditional substitutions fire exactly where the source rules say.

(a) API level: random rule lists through fontir::feature_variations::overlay_feature_variations, the
returned boxes evaluated at sampled points against the source rule semantics (vapi c16);
(b) end to end: designspace <rules> compiled by the real CLI and the font's FeatureVariations evaluated
by an independent evaluator (voracle c16) - see c16e2e()."""
import json

from . import apirun, common
from .common import Check


def run(tier):
    chk = Check("C16", tier)
    bins = common.build("rel", ("vapi", "fontc", "voracle"))
    n = 400 if tier == "quick" else 32000
    seeds = [chk.seed * 100 + k for k in range(16)]
    tot = {k: 0 for k in ("rule_lists", "points", "asserted_points", "points_with_active_rule", "conflicting_points", "conflicting_mismatch", "edge_points", "edge_mismatch")}
    samples = []
    for seed, res, err in apirun.run_children(bins["vapi"], "c16", seeds, n):
        if res is None:
            if err == "watchdog":
                chk.inconc({"seed": seed, "why": err})
            else:
                chk.violation("child-died", f"vapi c16 seed {seed}: {err}", replay={"seed": seed, "n": n})
            continue
        for k in tot:
            tot[k] += res.get(k, 0)
        if res.get("sample") and len(samples) < 2:
            samples.append(res["sample"])
        for v in res["violations"]:
            chk.violation("overlay:missing-or-extra-substitution" if "panic" not in v["what"] else "overlay:panic", v["what"], replay=v.get("rules"))
    if tot["conflicting_mismatch"]:
        # finding F8: reported under its own signature, never asserted
        for _ in range(min(tot["conflicting_mismatch"], 1)):
            chk.violation("overlay:conflicting-targets-not-in-rule-order",
                          f"{tot['conflicting_mismatch']} of {tot['conflicting_points']} points where two applicable rules map one glyph to different targets do not follow rule order",
                          replay={})
    e2e = {}
    try:
        from . import c16e2e
        e2e = c16e2e.run(chk, bins, tier)
    except ImportError:
        e2e = {"status": "end-to-end part not built yet"}
    chk.coverage["evaluations"] += tot["points"]
    chk.coverage.update({
        "distinct_nontrivial": tot["points_with_active_rule"] + e2e.get("points_with_active_rule", 0),
        "rule": "API level: random rule lists (1-6 rules, 1-3 condition sets, 1-3 axes, open-ended / nested / partially overlapping / identical boxes, "
                "same-substitution rules) x 40 points (box edges +-2 F2Dot14 quanta, centres, extremes, default, random); asserted = points more than one "
                "quantum from every edge where applicable rules do not conflict; non-trivial = sampled points where at least one rule applies. "
                "End to end: generated designspace <rules> compiled by the CLI, FeatureVariations evaluated independently.",
        "samples": samples, **{"api_" + k: v for k, v in tot.items()}, "e2e": e2e,
    })
    chk.assumptions += ["points within one F2Dot14 quantum of a box edge are evaluated and counted but not asserted",
                        "points where two applicable rules map one glyph to different targets are reported under finding F8 only"]
    return chk.finish()


def replay(path):
    rec = json.load(open(path))
    rp = rec["replay"] or {}
    chk = Check("C16", "quick")
    bins = common.build("rel", ("vapi",))
    seed, n = rp.get("seed", 1), rp.get("case", 0) + 1
    for s, res, err in apirun.run_children(bins["vapi"], "c16", [seed], n):
        for v in (res or {}).get("violations", []):
            chk.violation("overlay:missing-or-extra-substitution", v["what"], replay=v.get("rules"))
    chk.coverage.update({"evaluations": n, "distinct_nontrivial": 2, "rule": "replay of the generating seed up to the failing case", "samples": [rp]})
    return chk.finish()
