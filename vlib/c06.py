"""C06 - glyph set, glyph order and cmap are exactly what the source declares."""
from . import srccheck

OPTS = [("--no-production-names",), ("--no-production-names",), ("--no-production-names", "--prefer-simple-glyphs=false"), (), ("--no-production-names", "--flatten-components"),
        ("--no-production-names", "--decompose-components")]
RULE = ("generated sources with full / partial / absent public.glyphOrder (unknown names, .notdef absent / first / middle / last), skipExport glyphs "
        "used as (nested) components, several codepoints per glyph incl. supplementary plane, public.postscriptNames, mixed glyphs under "
        "--prefer-simple-glyphs=false; expected order / cmap / names from an independent model of the documented rules; non-trivial = sources whose "
        "expected order is neither the declared nor the sorted order (counted), evaluations = sources")


def run(tier):
    return srccheck.run_prop("C06", tier, 45, 600, OPTS, None, "c06_glyphs", RULE)


def replay(path):
    return srccheck.replay_prop("C06", path)
