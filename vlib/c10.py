"""C10 - mark/mkmk attachment in the font places marks on the source's anchors at every master."""
from . import srccheck

OPTS = [(), (), ("--no-production-names",)]
RULE = ("generated sources with base / mark / ligature-component anchors (several anchor names per glyph, marks that stack, ligature components "
        "without an anchor, marks with two underscore anchors, positions varying per master with .5 ties, sparse layers) and explicit "
        "public.openTypeCategories; for every (attaching glyph or ligature component, mark) pair sharing an anchor name and every master: some "
        "MarkBase/MarkMark/MarkLig lookup reachable from mark/mkmk under DFLT and latn attaches them with base and mark anchors equal to the rounded "
        "source anchors at that master (+-1 only with a fractional scalar), no lookup attaches them any other way, and source marks have GDEF class 3; "
        "non-trivial = attachment evaluations at non-default masters")


def run(tier):
    return srccheck.run_prop("C10", tier, 15, 300, OPTS, None, "c10_nontrivial", RULE)


def replay(path):
    return srccheck.replay_prop("C10", path)
