"""C14 - --emit-ir is transparent and faithful.

(a) bytes with/without --emit-ir; (b) read-back probe on every persisted set() (hook events `persist`);
(c) written-file map (hook events `wfile`) must be injective, also under ASCII case folding;
(d) histories build(A,dir); build(B,dir) into a stale build dir vs build(B, clean dir)."""
import json
import os
import shutil

from . import common
from .common import Check, compile_font, pmap, table_diff
from .tracecheck import key_of

TABLE_TYPES = ("write_fonts::", "fontbe::orchestration::Bytes", "fontbe::avar::PossiblyEmptyAvar")
SESSION_ONLY = {"fontbe::orchestration::ExtraFeaTables": "os2_builder is documented as not serialized (session only)"}

HOSTILE_NAMES = ["a", "A", "aA", "Aa", "AA", "aa", "CON", "con", "nul.alt", "NUL.alt", ".x", "x.", "a*b", "a?b", "a/b", "a\\b", "a:b", "a%b",
                 "a^b", "a<b", "a>b", "a|b", "a b", "a_b", "A_", "a__", "_a", "é", "É", "ß", "ẞ", "aé", "Ａ", "COM1", "lpt1.liga", "a" * 63,
                 "A" * 63, "a.b.c", "a-b", "a+b", "a~b", "a#b", "a&b", "a'b", "a\"b", "Prn", "aux", "Aux"]


# names that must not be confused with each other, in groups: letter-case twins, device names, and *escape twins* - a
# name containing a character that file-name escaping rewrites, next to the name that spells that escape out literally
# (whatever the escaping scheme is, the two are different items and need different files)
CONFUSABLE_GROUPS = [
    ["a", "A", "aA", "Aa", "AA", "aa"], ["CON", "con", "Con"], ["nul.alt", "NUL.alt"], ["aux", "Aux", "AUX"], ["Prn", "prn"],
    [".x", "%2Ex", "_x", "x."], ["a%b", "a%25b", "a%2525b"], ['a"b', "a%22b"], ["a*b", "a%2Ab", "a%2ab"], ["a?b", "a%3Fb", "a%3fb"],
    ["a/b", "a%2Fb", "a_b"], ["a\\b", "a%5Cb"], ["a:b", "a%3Ab"], ["a<b", "a%3Cb"], ["a>b", "a%3Eb"], ["a|b", "a%7Cb"], ["a b", "a%20b"],
    ["a^b", "a%5Eb", "a^", "a^A"], ["A_", "a__", "_a"], ["é", "É", "e\u0301"], ["ß", "ẞ", "ss"], ["a" * 63, "A" * 63, "a" * 62 + "A"],
    ["a+b", "a%2Bb"], ["a#b", "a%23b"], ["a&b", "a%26b"], ["a'b", "a%27b"], ["COM1", "com1", "lpt1.liga", "LPT1.liga"],
    # names that look like references to something else once written as a plain string: a kerning group, a glyph class
    ["@side1.caps", "side1.caps", "@side2.caps"], ["@at", "at", "@"],
]


def hostile_model(model, i):
    """Rename glyphs of a generated model to hostile names, taken in whole confusable groups."""
    import random
    rng = random.Random(f"hostile:{i}:{model.get('seed')}")
    groups = [list(g) for g in CONFUSABLE_GROUPS]
    rng.shuffle(groups)
    budget = sum(1 for g in model["glyphs"] if g["name"] != ".notdef")
    pool = []
    for g in groups:
        if len(pool) + len(g) <= budget:
            pool += g
    rest = [n for n in HOSTILE_NAMES if n not in pool]
    rng.shuffle(rest)
    pool += rest[: max(0, budget - len(pool))]
    rng.shuffle(pool)
    ren = {}
    for g in model["glyphs"]:
        if g["name"] == ".notdef" or not pool:
            continue
        ren[g["name"]] = pool.pop()
    for g in model["glyphs"]:
        g["name"] = ren.get(g["name"], g["name"])
        g["unicodes"] = []  # codepoints would make AGL/production naming part of the test
        for layer in g["layers"].values():
            for c in layer["components"]:
                c["base"] = ren.get(c["base"], c["base"])
    for k in ("public.glyphOrder", "public.skipExportGlyphs"):
        if k in model["lib"]:
            model["lib"][k] = [ren.get(n, n) for n in model["lib"][k]]
    # the hostile names are kerned directly (glyph to glyph): the kerning items written with --emit-ir carry the names as keys
    names = [g["name"] for g in model["glyphs"] if g["name"] != ".notdef" and g.get("export", True)]
    pairs = [(rng.choice(names), rng.choice(names)) for _ in range(min(16, 2 * len(names)))] if names else []
    for mi, m in enumerate(model["masters"]):
        m["groups"] = {}
        m["kerning"] = {}
        if m.get("layer") is None:
            for k, (a, b) in enumerate(pairs):
                m["kerning"].setdefault(a, {})[b] = -10 * (k + 1) - 7 * mi
    return model


def close_kern_model(model, i):
    """Intermediate full masters whose normalised locations are < 0.005 apart, each with its own kerning."""
    import copy
    import random
    rng = random.Random(f"close:{i}")
    if not model["axes"]:
        return model
    ax = model["axes"][0]
    from gen import model as M
    lo, df, hi = M.design_bounds(ax)
    span = hi - df if hi != df else lo - df
    if span == 0:
        return model
    base = df + span * rng.choice([0.3, 0.5, 0.7])
    second = base + span * rng.choice([0.001, 0.003, 0.0045])
    full = [m for m in model["masters"] if m["layer"] is None]
    for j, d in enumerate((base, second)):
        if any(m["design_loc"][ax["tag"]] == d for m in model["masters"]):
            continue
        nm = copy.deepcopy(full[-1])
        nm["name"] = f"C{j}"
        nm["ufo"] = f"{model['family']}-C{j}.ufo"
        nm["design_loc"] = dict(full[0]["design_loc"])
        nm["design_loc"][ax["tag"]] = d
        for a, row in nm["kerning"].items():
            for b in row:
                row[b] += rng.randint(-9, 9)
        model["masters"].append(nm)
        for g in model["glyphs"]:
            src = g["layers"].get(full[-1]["name"]) or g["layers"].get(full[0]["name"])
            if src is not None:
                g["layers"][nm["name"]] = copy.deepcopy(src)
    return model


def analyse_trace(trace):
    persists, wfiles = [], []
    try:
        with open(trace) as f:
            for line in f:
                if '"t":"persist"' in line or '"t":"wfile"' in line:
                    try:
                        e = json.loads(line)
                    except json.JSONDecodeError:
                        continue
                    (persists if e["t"] == "persist" else wfiles).append(e)
    except OSError:
        pass
    return persists, wfiles


def judge_trace(chk, rel, persists, wfiles, stats, replay):
    for e in persists:
        ty = e["type"]
        item = e["item"]["id"]
        stats["persist_events"] += 1
        stats["types"].add(ty)
        stats["items"].add((rel, key_of(e["item"])))
        disc = e["item"]["disc"]
        if not e["readable"]:
            chk.violation(f"unreadable:{disc}:{ty}", f"{rel}: item {item} ({ty}, {e['len']} bytes on disk) was written but cannot be read back", replay=replay | {"event": e})
            continue
        if ty.startswith(TABLE_TYPES):
            if e["idem"] is False:
                chk.violation(f"not-fixpoint:{disc}:{ty}", f"{rel}: table item {item} ({ty}) read back and re-written gives different bytes", replay=replay | {"event": e})
            elif e["idem"] is None:
                stats["idem_unknown"] += 1
        elif ty in SESSION_ONLY:
            if e["equal"] is False and e["idem"] is not True:
                chk.violation(f"not-equal:{disc}:{ty}", f"{rel}: item {item} ({ty}) reads back different beyond its session-only field", replay=replay | {"event": e})
            elif e["equal"] is False:
                stats["session_only_differences"] += 1
        else:
            if e["equal"] is False:
                chk.violation(f"not-equal:{disc}:{ty}", f"{rel}: item {item} ({ty}) reads back as a value different from the one in memory", replay=replay | {"event": e})
            elif e["equal"] is None:
                stats["no_equality_available"] += 1
    by_path, by_fold = {}, {}
    for e in wfiles:
        stats["wfile_events"] += 1
        by_path.setdefault(e["path"], set()).add(key_of(e["item"]))
        by_fold.setdefault(e["path"].lower() if e["path"].isascii() else "".join(c.lower() if c.isascii() else c for c in e["path"]), set()).add(e["path"])
    for p, items in by_path.items():
        if len(items) > 1:
            kinds = sorted({i.split("|")[0] for i in items})
            chk.violation(f"same-file:{'+'.join(kinds)}", f"{rel}: distinct items {sorted(items)} are written to the same file {os.path.basename(p)}", replay=replay | {"path": p, "items": sorted(items)})
    for p, paths in by_fold.items():
        if len(paths) > 1:
            chk.violation("same-file-casefold", f"{rel}: files {sorted(os.path.basename(x) for x in paths)} differ only by ASCII case", replay=replay | {"paths": sorted(paths)})
    stats["paths"] += len(by_path)


def one_source(fontc, chk, i, source, opts):
    wd = os.path.join(chk.scratch, f"s{i}")
    trace = os.path.join(wd, "trace.jsonl")
    r0, out0, _ = compile_font(fontc, source, wd, args=opts, name="plain", threads=4, timeout=600)
    r1, out1, cmd = compile_font(fontc, source, wd, args=opts, name="ir", emit_ir=True, trace=trace, threads=4, timeout=600)
    res = {"i": i, "source": source, "opts": list(opts), "rc": (r0.rc, r1.rc), "timed_out": r0.timed_out or r1.timed_out, "wd": wd,
           "sha": (common.sha256_file(out0) if r0.rc == 0 and os.path.exists(out0) else None,
                   common.sha256_file(out1) if r1.rc == 0 and os.path.exists(out1) else None),
           "fonts": (out0, out1), "stderr": r1.stderr[-400:], "cmd": cmd}
    res["persists"], res["wfiles"] = analyse_trace(trace)
    return res


def history(fontc, chk, i, a, b):
    """build(A, dir) ; build(B, dir)  vs  build(B, clean)."""
    wd = os.path.join(chk.scratch, f"h{i}")
    os.makedirs(wd, exist_ok=True)
    shared = os.path.join(wd, "shared.build")
    outa, outb, outc = (os.path.join(wd, n) for n in ("a.ttf", "b.ttf", "c.ttf"))
    env = common.fontc_env(threads=4)
    trace = os.path.join(wd, "trace.jsonl")
    ra = common.run([fontc, a, "-o", outa, "--build-dir", shared, "--emit-ir"], env=env, timeout=600)
    # every other history leaves the second font where the build puts it by default (<build dir>/font.ttf, the file the
    # persistence layer itself writes) instead of naming an output; the second build's persisted items are read back too
    default_out = i % 2 == 1
    if default_out:
        outb = os.path.join(shared, "font.ttf")
    rb = common.run([fontc, b, "--build-dir", shared, "--emit-ir"] + ([] if default_out else ["-o", outb]), env=common.fontc_env(threads=4, trace=trace), timeout=600)
    rc = common.run([fontc, b, "-o", outc, "--build-dir", os.path.join(wd, "clean.build")], env=env, timeout=600)
    persists, wfiles = analyse_trace(trace) if os.path.exists(trace) else ([], [])
    return {"i": i, "a": a, "b": b, "rc": (ra.rc, rb.rc, rc.rc), "timed_out": ra.timed_out or rb.timed_out or rc.timed_out, "wd": wd,
            "sha": tuple(common.sha256_file(p) if r.rc == 0 and os.path.exists(p) else None for p, r in ((outb, rb), (outc, rc))),
            "fonts": (outb, outc), "stderr": rb.stderr[-400:], "persists": persists, "wfiles": wfiles, "default_out": default_out}


def rel_of(p):
    return os.path.relpath(p, common.TESTDATA) if p.startswith(common.TESTDATA) else os.path.basename(os.path.dirname(p)) + "/" + os.path.basename(p)


def run(tier):
    from . import gensrc
    chk = Check("C14", tier)
    fontc = common.build("rel", ("fontc",))["fontc"]
    rng = chk.rng
    srcs = [common.corpus_path(s) for s in common.corpus()]
    nq = tier == "quick"
    pick = rng.sample(srcs, 24) if nq else srcs
    gen = gensrc.sources_for("C14", chk, n=6 if nq else 60)
    hostile = gensrc.sources_for("C14h", chk, n=6 if nq else 60, fams=["static-noorder", "var1-noorder", "var1-mixedglyphs"], post=hostile_model)
    close = gensrc.sources_for("C14k", chk, n=4 if nq else 40, fams=["kern-var1", "kern-intermediate"], post=close_kern_model)
    cases = [(s, ()) for s in pick + gen + hostile + close]
    if not nq:
        cases += [(s, rng.choice([("--flatten-components",), ("--decompose-components",), ("--no-production-names",)])) for s in rng.sample(srcs, 80)]
    stats = {"persist_events": 0, "wfile_events": 0, "types": set(), "items": set(), "idem_unknown": 0, "session_only_differences": 0,
             "no_equality_available": 0, "paths": 0}
    samples = []
    for res in pmap(lambda ic: one_source(fontc, chk, ic[0], ic[1][0], ic[1][1]), list(enumerate(cases)), workers=8):
        rel = rel_of(res["source"])
        chk.coverage["evaluations"] += 1
        replay = {"source": res["source"], "opts": res["opts"], "cmd": res["cmd"]}
        if res["timed_out"]:
            chk.inconc({"source": rel, "why": "watchdog"})
        elif res["rc"][0] != res["rc"][1] or res["sha"][0] != res["sha"][1]:
            diff = table_diff(*res["fonts"]) if all(res["sha"]) else []
            chk.violation(f"emit-ir-changes-font:{rel}", f"{rel} {res['opts']}: rc/sha without --emit-ir {res['rc'][0]}/{str(res['sha'][0])[:12]} vs with {res['rc'][1]}/{str(res['sha'][1])[:12]}; tables differing {diff}; {res['stderr'][-200:]}",
                          replay=replay, files=[f for f, s in zip(res["fonts"], res["sha"]) if s])
        elif res["sha"][0] is None:
            chk.inconc({"source": rel, "why": f"does not compile rc={res['rc']}", "stderr": res["stderr"][-200:]})
        judge_trace(chk, rel, res["persists"], res["wfiles"], stats, replay)
        if len(samples) < 4 and res["persists"]:
            samples.append({"source": rel, "sha": res["sha"][0], "persist_events": len(res["persists"]), "files_written": len(res["wfiles"]),
                            "example_event": {k: res["persists"][0][k] for k in ("item", "type", "readable", "equal", "idem", "len")}})
        shutil.rmtree(res["wd"], ignore_errors=True)
    # stale build-dir histories
    pairs = []
    by_dir = {}
    for s in srcs:
        by_dir.setdefault(os.path.dirname(s), []).append(s)
    nh = 16 if nq else 200
    fixed_pairs = [("glyphs3/MetaTable.glyphs", "glyphs3/NoMetaTable.glyphs"), ("glyphs3/WghtVar.glyphs", "glyphs3/WghtVar_NoExport.glyphs"),
                   ("wght_var.designspace", "static.designspace"), ("glyphs2/WghtVar.glyphs", "glyphs3/WghtVar.glyphs")]
    for a, b in fixed_pairs:
        pa, pb = common.corpus_path(a), common.corpus_path(b)
        if os.path.exists(pa) and os.path.exists(pb):
            pairs.append((pa, pb))
            pairs.append((pb, pa))
    while len(pairs) < nh:
        d = rng.choice([v for v in by_dir.values() if len(v) >= 2]) if rng.random() < 0.7 else srcs
        a, b = rng.sample(d, 2)
        pairs.append((a, b))
    hist_stats = {"histories": 0, "histories_conclusive": 0}
    for res in pmap(lambda ic: history(fontc, chk, ic[0], ic[1][0], ic[1][1]), list(enumerate(pairs)), workers=8):
        chk.coverage["evaluations"] += 1
        hist_stats["histories"] += 1
        ra, rb = rel_of(res["a"]), rel_of(res["b"])
        if res["timed_out"]:
            chk.inconc({"history": (ra, rb), "why": "watchdog"})
        elif res["rc"][0] != 0 or res["rc"][2] != 0:
            chk.inconc({"history": (ra, rb), "why": f"rc {res['rc']}"})
        else:
            hist_stats["histories_conclusive"] += 1
            hist_stats["histories_with_default_output"] = hist_stats.get("histories_with_default_output", 0) + (1 if res["default_out"] else 0)
            if res["rc"][1] == 0:
                judge_trace(chk, f"{rb} (into the build dir left by {ra})", res["persists"], res["wfiles"], stats, {"history": [res["a"], res["b"]]})
            if res["sha"][0] != res["sha"][1]:
                diff = table_diff(*res["fonts"]) if all(res["sha"]) else ["<stale build failed>"]
                chk.violation(f"stale-build-dir:{rb}", f"building {rb} with --emit-ir into the build dir left by {ra} gives rc {res['rc'][1]} / different font than a clean build; tables differing {diff}; {res['stderr'][-200:]}",
                              replay={"history": [res["a"], res["b"]]}, files=[f for f, s in zip(res["fonts"], res["sha"]) if s])
        shutil.rmtree(res["wd"], ignore_errors=True)
    chk.coverage.update({
        "distinct_nontrivial": len(stats["items"]),
        "rule": "evaluations = sources compiled with and without --emit-ir (bytes compared, every persisted set() read back by the hook, "
                "written-file map checked for injectivity incl. ASCII case fold) + stale-build-dir histories; distinct_nontrivial = distinct "
                "(source, item) pairs whose persisted value was read back",
        "samples": samples, "persist_events": stats["persist_events"], "files_written": stats["wfile_events"], "distinct_paths": stats["paths"],
        "persisted_types": sorted(stats["types"]), "idem_unknown": stats["idem_unknown"],
        "session_only_differences": stats["session_only_differences"], "events_without_equality": stats["no_equality_available"], **hist_stats,
    })
    chk.assumptions += ["table-typed items (write_fonts::*, Bytes) are judged by byte fixpoint, serde-typed items by ==",
                        "case-insensitive file systems are modelled by ASCII-folding the recorded paths"]
    return chk.finish()


def replay(path):
    rec = json.load(open(path))
    rp = rec["replay"]
    chk = Check("C14", "quick")
    fontc = common.build("rel", ("fontc",))["fontc"]
    stats = {"persist_events": 0, "wfile_events": 0, "types": set(), "items": set(), "idem_unknown": 0, "session_only_differences": 0, "no_equality_available": 0, "paths": 0}
    if "history" in rp:
        res = history(fontc, chk, 0, rp["history"][0], rp["history"][1])
        if res["sha"][0] != res["sha"][1]:
            chk.violation(f"stale-build-dir:{rel_of(res['b'])}", "replayed: stale build dir changes the font", replay=rp)
    else:
        res = one_source(fontc, chk, 0, rp["source"], tuple(rp["opts"]))
        if res["sha"][0] != res["sha"][1]:
            chk.violation(f"emit-ir-changes-font:{rel_of(rp['source'])}", "replayed: bytes differ", replay=rp)
        judge_trace(chk, rel_of(rp["source"]), res["persists"], res["wfiles"], stats, rp)
    chk.coverage.update({"evaluations": 1, "distinct_nontrivial": max(2, len(stats["items"])), "rule": "replay", "samples": [rp]})
    return chk.finish()
