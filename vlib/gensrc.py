"""Generated sources for a check: renders models of the property's families into the check's scratch dir."""
import os
import sys

from . import common

sys.path.insert(0, common.ROOT)
from gen import families, glyphs, ufo  # noqa: E402

# properties whose oracles understand Glyphs-rendered sources (second front end): every third source is rendered as
# a Glyphs 3 file when the model can be expressed there (identity axis maps, diagonal transforms, shared kern groups)
GLYPHS_FORMAT_PROPS = {"C03", "C04", "C06", "C09", "C10", "C05", "C17", "C01", "C02", "C14", "C12", "C16"}


def sources_for(prop, chk, n, fams=None, post=None):
    """Render n generated sources (designspace / UFO / Glyphs paths; manifest.json sits next to each)."""
    fams = fams or families.BY_PROPERTY.get(prop) or list(families.FAMILIES)
    out = []
    for i in range(n):
        fam = fams[i % len(fams)]
        d = os.path.join(chk.scratch, "gen", f"{fam}-{chk.seed}-{i}")
        if prop in GLYPHS_FORMAT_PROPS and ((i + i // len(fams)) % 3 == 2 or fam.endswith("-g")):  # rotates through the families over the rounds
            model = families.make(fam, chk.seed, i, overrides={"mapped": 0.0, "vertical": False, "explicit_metrics": False})
            if post:
                model = post(model, i) or model
            if glyphs.expressible(model):
                out.append(glyphs.render(model, d))
                continue
        model = families.make(fam, chk.seed, i)
        if post:
            model = post(model, i) or model
        out.append(ufo.render(model, d))
    return out
