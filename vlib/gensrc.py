"""Generated sources for a check: renders models of the property's families into the check's scratch dir."""
import os
import sys

from . import common

sys.path.insert(0, common.ROOT)
from gen import families, ufo  # noqa: E402


def sources_for(prop, chk, n, fams=None, post=None):
    """Render n generated sources (designspace paths; manifest.json sits next to each)."""
    fams = fams or families.BY_PROPERTY.get(prop) or list(families.FAMILIES)
    out = []
    for i in range(n):
        fam = fams[i % len(fams)]
        model = families.make(fam, chk.seed, i)
        if post:
            model = post(model, i) or model
        d = os.path.join(chk.scratch, "gen", f"{fam}-{chk.seed}-{i}")
        out.append(ufo.render(model, d))
    return out
