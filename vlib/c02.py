"""C02 - task-graph safety: trace hooks + offline happens-before checker + outcome monitor.

Thorough tier additionally runs the ThreadSanitizer build and Miri (see sanitize.py)."""
import json
import os
import re
import shutil

from . import common, tracecheck
from .common import Check, compile_font, pmap

FORBIDDEN = re.compile(r"unable to proceed|is not available|Illegal (read|write)|Multiple completions|completed but isn't pending|"
                       r"Repeat signals|Spawned more jobs|No errors but only|Not all counts by discriminant|Glyf has to be pending|Gvar has to be pending|"
                       r"has to be pending|No count of type", re.I)
OPTS = [(), ("--prefer-simple-glyphs=false",), ("--skip-features",), ("--flatten-components",), ("--decompose-components",), ("--emit-ir",)]


def one_trace(fontc, chk, i, source, opts, threads, jseed):
    wd = os.path.join(chk.scratch, f"t{i}")
    os.makedirs(wd, exist_ok=True)
    trace = os.path.join(wd, "trace.jsonl")
    r, out, cmd = compile_font(fontc, source, wd, args=opts, threads=threads, jitter=f"{jseed}:2000" if jseed else None,
                               trace=trace, hash_seed=jseed or 0, timeout=900)
    res = {"i": i, "source": source, "opts": list(opts), "threads": threads, "jitter": jseed, "rc": r.rc, "timed_out": r.timed_out,
           "stderr": r.stderr[-1500:], "wd": wd, "trace": trace, "cmd": cmd}
    if r.timed_out:
        return res
    try:
        res["check"] = tracecheck.check(trace)
    except Exception as e:  # noqa
        res["checker_error"] = repr(e)
    return res


def judge(chk, res, totals, sigs):
    rel = os.path.relpath(res["source"], common.TESTDATA) if res["source"].startswith(common.TESTDATA) else os.path.basename(os.path.dirname(res["source"])) + "/" + os.path.basename(res["source"])
    cfg = f"{' '.join(res['opts'])}|{res['threads']}thr"
    if res["timed_out"]:
        chk.inconc({"source": rel, "why": "wall-clock watchdog"})
        return
    if "checker_error" in res:
        chk.inconc({"source": rel, "why": "checker error " + res["checker_error"]})
        return
    m = FORBIDDEN.search(res["stderr"])
    if m:
        chk.violation(f"scheduler-failure:{rel}:{m.group(0).lower()}", f"compile of a valid source failed with a scheduler failure ({cfg}): {res['stderr'][-300:]}",
                      replay={k: res[k] for k in ("source", "opts", "threads", "jitter", "cmd")}, files=[res["trace"]])
    elif res["rc"] != 0:
        chk.inconc({"source": rel, "why": f"rc {res['rc']} without scheduler failure text", "stderr": res["stderr"][-200:]})
    c = res["check"]
    for v in c["violations"]:
        if v["kind"] in ("race", "predicted-race"):
            # key on the kinds of jobs involved + the item kind, so the same defect in another glyph is the same finding
            def gen(s):
                return re.sub(r"((?:Fe|Be)\(\w+)\(.*\)\)", r"\1(*))", s)
            sig = f"{v['kind']}:{gen(v['a'])}:{v.get('a_op', '')}:{gen(v['b'])}:{v.get('b_op', '')}:{gen(v['item'])}"
        else:
            sig = f"{v['kind']}:{v['what'][:80]}"
        chk.violation(sig, f"{rel} ({cfg}): {v['what']}", replay={k: res[k] for k in ("source", "opts", "threads", "jitter", "cmd")} | {"violation": v},
                      files=[res["trace"]])
    for k, v in c["stats"].items():
        totals[k] = totals.get(k, 0) + v
    sigs.add(c["launch_sig"])
    st = c["stats"]
    return st.get("dynamic_jobs", 0) >= 1 and st.get("rewrites", 0) >= 1 and st.get("pairs_examined", 0) >= 1


def plan(chk, tier):
    from . import gensrc
    srcs = [common.corpus_path(s) for s in common.corpus()]
    rng = chk.rng
    cases = []
    # fixtures whose job graphs have dynamic jobs of every kind are always in
    always = ["glyphs2/IntermediateLayer.glyphs", "glyphs3/WghtVar.glyphs", "wght_var.designspace", "glyphs2/MixedContourComponent.glyphs" if os.path.exists(common.corpus_path("glyphs2/MixedContourComponent.glyphs")) else "wght_var.designspace"]
    if tier == "quick":
        pick = [common.corpus_path(a) for a in always] + rng.sample(srcs, 34)
        gen = gensrc.sources_for("C02", chk, n=10)
        for s in pick + gen:
            cases.append((s, rng.choice(OPTS[:3]), rng.choice([2, 3, 4, 8, 16]), chk.seed * 100 + len(cases) + 1))
        for a in always[:2]:
            for th in (2, 3, 4):
                cases.append((common.corpus_path(a), (), th, chk.seed * 100 + len(cases) + 1))
        # the "completion handled late" window: GlyphOrder becomes launchable when the last IR glyph's worker decrements
        # the counter, before the main thread has handled that completion.  Sources in which GlyphOrder rewrites glyphs,
        # few workers, several jitter seeds (the jitter point before read_completions widens the window).
        window = [s for s in srcs if "IntermediateLayer" in s or "NonExport" in s or "MixedContour" in s][:5]
        for s in window:
            for o in ((), ("--flatten-components",)):
                for k in range(8):
                    cases.append((s, o, 3, chk.seed * 100 + 50 + len(cases)))
    else:
        gen = gensrc.sources_for("C02", chk, n=60)
        for s in srcs + gen:
            for th in (2, 3, 4, 8, 16):
                cases.append((s, rng.choice(OPTS), th, chk.seed * 1000 + len(cases) + 1))
            cases.append((s, (), 1, 0))
    return cases


def run(tier):
    chk = Check("C02", tier)
    fontc = common.build("rel", ("fontc",))["fontc"]
    common.ensure_shim()
    cases = plan(chk, tier)
    totals, sigs = {}, set()
    nontrivial = 0
    samples = []

    def work(ic):
        i, (s, o, th, j) = ic
        res = one_trace(fontc, chk, i, s, o, th, j)
        return res
    for res in pmap(work, list(enumerate(cases)), workers=6):
        chk.coverage["evaluations"] += 1
        nt = judge(chk, res, totals, sigs)
        if nt:
            nontrivial += 1
        if len(samples) < 5 and "check" in res:
            samples.append({"source": os.path.relpath(res["source"], common.REPO) if res["source"].startswith(common.REPO) else res["source"], "opts": res["opts"], "threads": res["threads"], "jitter_seed": res["jitter"],
                            "stats": res["check"]["stats"], "launch_sig": res["check"]["launch_sig"]})
        shutil.rmtree(res["wd"], ignore_errors=True)
    extra = {"trace_totals": totals, "distinct_launch_orders": len(sigs)}
    if tier == "thorough":
        from . import sanitize
        extra["sanitizers"] = sanitize.c02_sanitizers(chk)
    chk.coverage.update({
        "distinct_nontrivial": nontrivial,
        "rule": "evaluations = traced compiles (source x options x thread count x jitter seed); non-trivial = trace with >=1 dynamically "
                "created job, >=1 read-access rewrite and >=1 conflicting access pair examined; each trace is checked for unordered "
                "conflicting accesses (observed and predicted launch points), the launch invariant, and forbidden scheduler failures",
        "samples": samples,
    })
    chk.assumptions += ["the Identifier::discriminant() tables are trusted (variant matching)",
                        "hooks record end/complete before the state change they announce, launch after can_run, under one lock"]
    return chk.finish(extra=extra)


def replay(path):
    rec = json.load(open(path))
    rp = rec["replay"]
    chk = Check("C02", "quick")
    fontc = common.build("rel", ("fontc",))["fontc"]
    totals, sigs = {}, set()
    n = 0
    for k in range(12):
        res = one_trace(fontc, chk, k, rp["source"], tuple(rp["opts"]), rp["threads"], (rp["jitter"] or 0) + k)
        judge(chk, res, totals, sigs)
        n += 1
    chk.coverage.update({"evaluations": n, "distinct_nontrivial": len(sigs), "rule": "replay: 12 traces of the recorded configuration", "samples": [rp]})
    return chk.finish(extra={"trace_totals": totals})
