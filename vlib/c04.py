"""C04 - advances (hmtx+HVAR, vmtx+VVAR, gvar phantom points) and MVAR metrics at each master equal the master's."""
from . import srccheck

OPTS = [(), (), ("--no-production-names",), ("--flatten-components",), ("--decompose-components",)]
RULE = ("generated variable sources with every 1:1 fontinfo metric set explicitly per master; own ItemVariationStore / DeltaSetIndexMap evaluator on "
        "HVAR, VVAR, MVAR and own gvar phantom-point evaluator; advances within 1 of the rounded master advance and of each other, MVAR-tagged "
        "metrics equal the rounded master value (+-1 only where a region scalar is fractional), default-location values exact; non-trivial = "
        "(glyph|metric, non-default master) evaluations whose expected value differs from the default")


def run(tier):
    return srccheck.run_prop("C04", tier, 36, 400, OPTS, None, "c04_nontrivial", RULE)


def replay(path):
    return srccheck.replay_prop("C04", path)
