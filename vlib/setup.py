"""setup_cmd: build everything the quick checks need, from files on disk only."""
from . import common

HARNESS_BINS = ("fontc", "voracle", "vapi")


def main():
    common.ensure_shim()
    common.build("rel", HARNESS_BINS, quiet=False)
    common.build("dbg", ("fontc",), quiet=False)
    common.log("setup ok")
    return 0
