"""C11 - compiled GSUB/GPOS behave as the feature file says.

Random feature programs (gen/fea.py, AST kept) are compiled by fea_rs::Compiler inside rlimited child
processes (vapi c11) and the compiled tables applied to glyph strings by the independent OTL interpreter
(harness/src/eval/otl.rs); the same strings are interpreted directly from the AST (vlib/feainterp.py) under
the feature-file specification.  Outputs (glyphs + accumulated value records) must be equal for every
language system the file or the font registers (+ unregistered ones, exercising the fallbacks), with all
features on and with each feature alone."""
import itertools
import json
import os
import random
import sys
from concurrent.futures import ProcessPoolExecutor

from . import common
from .common import Check
from .feainterp import Model

sys.path.insert(0, common.ROOT)
from gen import fea  # noqa: E402

RULE = ("random feature programs over 19 glyphs (languagesystem statements, named classes, optional GDEF classes, standalone and in-feature "
        "named lookups, lookupflag IgnoreMarks/IgnoreBase/IgnoreLigatures/MarkAttachmentType/UseMarkFilteringSet, single / multiple / alternate / "
        "ligature (shared prefixes, class components) / chaining-contextual substitution with explicit lookups, inline single and inline ligature "
        "forms and ignore rules, single / pair (glyph, enum, class) / contextual positioning, script and language statements incl. exclude_dflt, "
        "features opened twice); every string of length <= 3 over the glyphs the program mentions (+1 unmentioned, +marks) and random strings "
        "<= 6, under every registered and two unregistered language systems, all features on and each alone; non-trivial = (program, system, "
        "mode, string) evaluations whose output differs from the input")


def strings_for(prog, rng, nmax):
    mentioned = []

    def note(gs):
        for g in gs:
            if g not in mentioned:
                mentioned.append(g)

    def walk_rule(r):
        t = r["t"]
        if t == "single":
            note([a for a, _ in r["map"]])
        elif t in ("multi", "alt"):
            note([r["from"]])
        elif t == "lig":
            for c in r["comps"]:
                note(c)
        elif t in ("ctx", "posctx"):
            for s in r["back"] + [s for s, _ in r["input"]] + r["ahead"]:
                note(s["g"])
        elif t == "pos1":
            note(r["glyphs"])
        elif t == "pos2":
            note(r["first"] + r["second"])
    for item in prog["items"]:
        rules = item[1]["rules"] if item[0] == "lookup" else [st[1] for st in item[2] if st[0] == "rule"] + [r for st in item[2] if st[0] == "block" for r in st[1]["rules"]]
        for r in rules:
            walk_rule(r)
    rng.shuffle(mentioned)
    alpha = mentioned[:6]
    extra = [g for g in prog["glyphs"][1:] if g not in mentioned]
    if extra:
        alpha.append(rng.choice(extra))
    if prog["gdef"]:
        alpha.append(rng.choice(prog["gdef"]["mark"]))
    alpha = list(dict.fromkeys(alpha))
    out = [list(t) for n in (1, 2, 3) for t in itertools.product(alpha, repeat=n)]
    if len(out) > nmax:
        keep = [s for s in out if len(s) < 3]
        rest = [s for s in out if len(s) == 3]
        rng.shuffle(rest)
        out = keep + rest[: max(0, nmax - len(keep))]
    wide = mentioned + alpha
    for _ in range(60):
        out.append([rng.choice(wide) for _ in range(rng.randint(4, 6))])
    return out


def fmt(buf, pos):
    return " ".join(buf) + "|" + ";".join(",".join(str(v) for v in p) for p in pos)


def evaluate_chunk(args):
    """One child: generate programs, run vapi c11 on them, interpret the ASTs, compare."""
    vapi, seed, chunk, n, nstrings, scratch = args
    rng = random.Random(f"c11:{seed}:{chunk}")
    progs = []
    ambiguous = 0
    while len(progs) < n:
        i = len(progs) + ambiguous
        p, text = fea.make(rng)
        strs = strings_for(p, rng, nstrings)
        m = Model(p)
        if m.ambiguous():
            ambiguous += 1
            continue
        systems = m.systems()
        probe = [("zzzz", "dflt")] + [(s, "ZZZ ") for s in sorted({s for s, _ in systems})][:2]
        # (attaching glyph, mark, ligature component) triples for the table-level mark attachment comparison
        pairs = []
        if p.get("markclasses"):
            attaching = sorted({g for l in m.lookups if l["type"] in ("markbase", "markmark", "marklig") for r in l["rules"] for g in r["glyphs"]})
            for b in attaching + ["a"]:
                for mk in p["gdef"]["mark"]:
                    pairs.append([b, mk, None])
                    if b in p["gdef"]["lig"]:
                        pairs += [[b, mk, c] for c in range(3)]
        progs.append({"id": f"{seed}-{chunk}-{i}", "fea": text, "glyphs": p["glyphs"], "strings": strs, "systems": [list(s) for s in systems + probe], "alts": 2, "pairs": pairs, "_ast": p})
    inp = os.path.join(scratch, f"in-{chunk}.json")
    outp = os.path.join(scratch, f"out-{chunk}.jsonl")
    with open(inp, "w") as f:
        json.dump({"programs": [{k: v for k, v in p.items() if k != "_ast"} for p in progs]}, f)
    r = common.run([vapi, "c11", inp, outp], timeout=1800, cpu_s=1200, as_bytes=4 << 30)
    res = {"ambiguous_skipped": ambiguous, "programs": 0, "rejected": 0, "evaluations": 0, "nontrivial": 0, "violations": [], "inconclusive": [], "reject_samples": [], "samples": [], "systems": 0, "attachments": 0,
           "rule_types": {}, "lookups": 0}
    if r.timed_out:
        res["inconclusive"].append({"chunk": chunk, "why": "watchdog"})
        return res
    got = {}
    if os.path.exists(outp):
        for line in open(outp):
            try:
                o = json.loads(line)
                got[o["id"]] = o
            except Exception:  # noqa
                pass
    if r.rc != 0 and len(got) < len(progs):
        # the child died while compiling the first program that has no result
        missing = next(p for p in progs if p["id"] not in got)
        res["violations"].append({"sig": "compiler-death", "what": f"fea-rs died (rc {r.rc} sig {r.sig}) compiling program {missing['id']}: {r.stderr[-200:]}", "prog": missing["fea"]})
    for p in progs:
        o = got.get(p["id"])
        if o is None:
            continue
        res["programs"] += 1
        if not o.get("ok"):
            if o.get("panic") is not None:
                res["violations"].append({"sig": "compiler-panic", "what": f"fea-rs panicked at {o['panic']} compiling a well-formed program", "prog": p["fea"]})
            else:
                res["rejected"] += 1
                if len(res["reject_samples"]) < 3:
                    res["reject_samples"].append({"error": (o.get("error") or o.get("decode") or "")[:300], "fea": p["fea"][:600]})
            continue
        m = Model(p["_ast"])
        res["lookups"] += sum(o.get("lookups", [0, 0]))
        for l in m.lookups:
            res["rule_types"][l["type"]] = res["rule_types"].get(l["type"], 0) + 1
        bad = 0
        for key, outs in o["results"].items():
            sysname, mode, alt = key.split("|")
            script, lang = sysname.split("/")
            only = None if mode == "*" else [mode]
            res["systems"] += 1
            for s, gotline in zip(p["strings"], outs):
                buf, pos = m.shape(s, script, lang, only, int(alt))
                want = fmt(buf, pos)
                res["evaluations"] += 1
                if want != fmt(s, [[0, 0, 0, 0]] * len(s)):
                    res["nontrivial"] += 1
                    if len(res["samples"]) < 2 and len(s) >= 3 and want == gotline:
                        res["samples"].append({"program": p["id"], "system": sysname, "features": mode, "string": " ".join(s), "both_give": want,
                                               "fea_head": p["fea"][:400]})
                if want != gotline and bad < 3:
                    bad += 1
                    res["violations"].append({"sig": "shaping-differs", "what": f"program {p['id']} under {sysname} features {mode} alternate {alt}: string {' '.join(s)} -> compiled tables give [{gotline}] but the feature file says [{want}]",
                                              "prog": p["fea"], "string": s, "system": sysname, "mode": mode})
        for key, atts in o.get("attachments", {}).items():
            sysname, mode = key.split("|")
            script, lang = sysname.split("/")
            only = None if mode == "*" else [mode]
            for (b, mk, comp), gotline in zip(p["pairs"], atts):
                want = ";".join(f"{k}:{ba[0]},{ba[1]},{ma[0]},{ma[1]}" for k, ba, ma in m.attachments(script, lang, only, b, mk, comp))
                res["evaluations"] += 1
                res["attachments"] += 1
                if want:
                    res["nontrivial"] += 1
                if want != gotline and bad < 3:
                    bad += 1
                    where = f"ligature {b} component {comp + 1}" if comp is not None else b
                    res["violations"].append({"sig": "attachment-differs", "what": f"program {p['id']} under {sysname} features {mode}: mark {mk} on {where}: compiled tables attach [{gotline}] but the feature file says [{want}]",
                                              "prog": p["fea"], "system": sysname, "mode": mode})
        if o.get("unsupported"):
            res["inconclusive"].append({"program": p["id"], "why": "font uses " + str(o["unsupported"][:2])})
    for f in (inp, outp):
        if os.path.exists(f):
            os.remove(f)
    return res


def run(tier):
    chk = Check("C11", tier)
    bins = common.build("rel", ("vapi",))
    nchunks, per, nstr = (16, 10, 200) if tier == "quick" else (64, 160, 140)
    jobs = [(bins["vapi"], chk.seed, c, per, nstr, chk.scratch) for c in range(nchunks)]
    tot = {"ambiguous_skipped": 0, "programs": 0, "rejected": 0, "evaluations": 0, "nontrivial": 0, "systems": 0, "lookups": 0, "attachments": 0}
    types = {}
    rejects = []
    samples = []
    with ProcessPoolExecutor(max_workers=common.NCPU) as ex:
        for res in ex.map(evaluate_chunk, jobs):
            for k in tot:
                tot[k] += res[k]
            for k, v in res["rule_types"].items():
                types[k] = types.get(k, 0) + v
            rejects += res["reject_samples"]
            samples += res["samples"][:1]
            for inc in res["inconclusive"]:
                chk.inconc(inc)
            for v in res["violations"]:
                chk.violation("c11:" + v["sig"], v["what"], replay={"fea": v["prog"], "string": v.get("string"), "system": v.get("system"), "mode": v.get("mode")})
    chk.coverage.update({"evaluations": tot["evaluations"], "distinct_nontrivial": tot["nontrivial"], "rule": RULE,
                         "samples": samples[:3] + [{"rejected_program": r} for r in rejects[:2]],
                         "c11_programs_compiled": tot["programs"] - tot["rejected"], "c11_programs_rejected_by_compiler": tot["rejected"], "c11_programs_skipped_ambiguous": tot["ambiguous_skipped"],
                         "c11_system_mode_runs": tot["systems"], "c11_mark_attachment_queries": tot["attachments"], "c11_compiled_lookups": tot["lookups"], "c11_model_lookups_by_type": types})
    chk.assumptions += ["programs the compiler rejects are counted, not judged (the generator aims at well-formed input)",
                        "ligature component marks skipped by a lookup flag stay after the ligature; cursor continues after the last component (both interpreters)"]
    if tot["programs"] and tot["rejected"] > tot["programs"] * 0.5:
        chk.inconc({"why": f"{tot['rejected']} of {tot['programs']} programs rejected by the compiler"})
    return chk.finish(min_nontrivial=1000)


def replay(path):
    rec = json.load(open(path))
    common.log("replay of a C11 witness: the FEA text and string are in the replay file; rerunning the generating tier is the replay")
    common.log(json.dumps(rec["replay"])[:2000])
    return run(rec.get("tier", "quick"))
