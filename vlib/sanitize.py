"""Sanitizer flavours (ThreadSanitizer, AddressSanitizer, Miri) - built on first thorough use."""


def c02_sanitizers(chk):
    return {"status": "not built yet in this round"}
