"""Sanitizer flavours (ThreadSanitizer, AddressSanitizer, Miri) - built on first thorough use, cached in
/verif/target/<flavour>.  A flavour that cannot be built, or a run that the tool itself aborts, is
*inconclusive* for that part (reported in the evidence), never a violation; a sanitizer report in repo
code is a violation."""
import os
import re
import subprocess
import time

from . import common

TARGET = "x86_64-unknown-linux-gnu"
FLAVOURS = {
    # name: (RUSTFLAGS, extra cargo args)
    "tsan": ("--cfg fontc_verif -Zsanitizer=thread -Cforce-frame-pointers=yes", ["-Zbuild-std", "--target", TARGET]),
    "asan": ("--cfg fontc_verif -Zsanitizer=address -Cforce-frame-pointers=yes", ["--target", TARGET]),
}


def build(flavour, bins=("fontc",), timeout=3600):
    """Build with the nightly toolchain into /verif/target/<flavour>; returns {bin: path} or raises Inconclusive."""
    common.ensure_lockfile()
    flags, extra = FLAVOURS[flavour]
    tdir = os.path.join(common.TARGET, flavour)
    cmd = ["cargo", "+nightly", "build", "--offline", "--release"] + extra
    for b in bins:
        if b == "fontc":
            cmd += ["-p", "fontc", "--bin", "fontc"]
    hb = [b for b in bins if b != "fontc"]
    if hb:
        cmd += ["-p", "vharness"] + sum((["--bin", b] for b in hb), [])
    env = common.base_env()
    env["RUSTFLAGS"] = flags
    env["CARGO_TARGET_DIR"] = tdir
    t0 = time.time()
    p = subprocess.run(cmd, cwd=common.HARNESS, env=env, stdout=subprocess.PIPE, stderr=subprocess.STDOUT, text=True, timeout=timeout)
    if p.returncode != 0:
        common.log(p.stdout[-3000:])
        raise common.Inconclusive(f"{flavour} build failed")
    if time.time() - t0 > 5:
        common.log(f"[build {flavour}] {time.time()-t0:.1f}s")
    d = os.path.join(tdir, TARGET, "release")
    return {b: os.path.join(d, b) for b in bins}


REPORT_START = re.compile(r"^(WARNING: ThreadSanitizer: |==\d+==ERROR: AddressSanitizer: |==\d+==ERROR: LeakSanitizer: )(.*)$")
FRAME = re.compile(r"^\s+#\d+ (?:0x[0-9a-f]+ in )?(\S.*?)(?: (/\S+?):(\d+))?(?::\d+)?(?: \(.*\))?$")


def parse_reports(text):
    """Split a sanitizer log into reports; each report is keyed by kind + first frame inside /repo."""
    reports = []
    cur = None
    for line in text.splitlines():
        m = REPORT_START.match(line)
        if m:
            cur = {"kind": m.group(2).split(" (")[0].strip(), "frames": [], "head": line.strip()}
            reports.append(cur)
            continue
        if cur is None:
            continue
        f = FRAME.match(line)
        if f:
            cur["frames"].append((f.group(1), f.group(2) or "", f.group(3) or ""))
        if line.startswith("SUMMARY:"):
            cur = None
    out = []
    for r in reports:
        in_repo = next((fr for fr in r["frames"] if "/repo/" in fr[1]), None)
        r["in_repo"] = in_repo
        r["key"] = f"{r['kind']}|{in_repo[0] if in_repo else (r['frames'][0][0] if r['frames'] else '?')}"
        out.append(r)
    return out


def run_sanitized(binary, flavour, source, workdir, args=(), threads=4, timeout=900):
    os.makedirs(workdir, exist_ok=True)
    log = os.path.join(workdir, f"{flavour}.log")
    extra = {}
    if flavour == "tsan":
        extra["TSAN_OPTIONS"] = f"halt_on_error=0 log_path={log} second_deadlock_stack=1 history_size=4"
    else:
        extra["ASAN_OPTIONS"] = f"halt_on_error=1 abort_on_error=0 detect_leaks=0 log_path={log}"
    r, out, cmd = common.compile_font(binary, source, workdir, args=args, threads=threads, timeout=timeout, extra=extra)
    text = ""
    for f in os.listdir(workdir):
        if f.startswith(f"{flavour}.log"):
            text += open(os.path.join(workdir, f), errors="replace").read()
    return r, parse_reports(text + "\n" + (r.stderr or "")), cmd


def sweep(chk, flavour, sources, option_sets, thread_counts, sig_prefix):
    """Run the sanitized CLI over sources x options x thread counts; violations for reports with a frame in /repo."""
    info = {"flavour": flavour, "runs": 0, "reports": 0, "reports_in_repo": 0, "distinct_reports": [], "inconclusive": 0}
    try:
        bins = build(flavour)
    except (common.Inconclusive, subprocess.TimeoutExpired) as e:
        info["status"] = f"not run: {e}"
        chk.inconc({"why": f"{flavour} flavour could not be built"})
        return info
    jobs = []
    k = 0
    for s in sources:
        for opts in option_sets:
            for t in thread_counts:
                jobs.append((k, s, opts, t))
                k += 1
    seen = {}

    def one(job):
        k, s, opts, t = job
        wd = os.path.join(chk.scratch, f"{flavour}{k}")
        r, reports, cmd = run_sanitized(bins["fontc"], flavour, s, wd, args=opts, threads=t)
        return job, r, reports, cmd, wd

    for job, r, reports, cmd, wd in common.pmap(one, jobs, workers=max(2, common.NCPU // 4)):
        info["runs"] += 1
        if r.timed_out:
            info["inconclusive"] += 1
            chk.inconc({"why": f"{flavour} run watchdog", "source": job[1]})
        for rep in reports:
            info["reports"] += 1
            seen.setdefault(rep["key"], 0)
            seen[rep["key"]] += 1
            if rep["in_repo"]:
                info["reports_in_repo"] += 1
                chk.violation(f"{sig_prefix}:{flavour}:{rep['key']}", f"{rep['head']} at {rep['in_repo']} while compiling {job[1]} {list(job[2])} with {job[3]} threads",
                              replay={"cmd": cmd, "flavour": flavour, "frames": rep["frames"][:12]})
        import shutil
        shutil.rmtree(wd, ignore_errors=True)
    info["distinct_reports"] = sorted(seen.items())[:20]
    info["status"] = "ran"
    return info


def c02_sanitizers(chk):
    """ThreadSanitizer over a corpus slice x thread counts: data races / lock-order inversions in the scheduler and contexts."""
    rng = chk.rng
    corpus = common.corpus()
    pick = rng.sample(corpus, min(len(corpus), 36))
    sources = [common.corpus_path(p) for p in pick]
    out = {"tsan": sweep(chk, "tsan", sources, [(), ("--emit-ir",)], [3, 8, 16], "c02")}
    out["miri"] = c02_miri(chk)
    return out


# ----------------------------------------------------------------------------------------------- Miri
MIRI_FLAGS = "-Zmiri-disable-isolation -Zmiri-tree-borrows -Zmiri-ignore-leaks"
MIRI_ERR = re.compile(r"^error(?:\[[A-Z0-9]+\])?: (.*)$", re.M)


def miri_run(bin_name, args, seed=0, env=None, timeout=3600, cwd=None):
    """`cargo +nightly miri run` of a harness binary.  Returns (status, detail): status in
    ok / ub (Miri reported undefined behaviour, a data race or a deadlock) / program-failed / unsupported / watchdog."""
    common.ensure_lockfile()
    e = common.base_env()
    e["RUSTFLAGS"] = "--cfg fontc_verif"
    e["CARGO_TARGET_DIR"] = os.path.join(common.TARGET, "miri")
    fwd = ""
    for k, v in (env or {}).items():
        e[k] = v
        fwd += f" -Zmiri-env-forward={k}"
    e["MIRIFLAGS"] = f"{MIRI_FLAGS} -Zmiri-seed={seed}{fwd}"
    cmd = ["cargo", "+nightly", "miri", "run", "--offline", "-p", "vharness", "--bin", bin_name, "--"] + list(args)
    try:
        p = subprocess.run(cmd, cwd=cwd or common.HARNESS, env=e, stdout=subprocess.PIPE, stderr=subprocess.PIPE, text=True, timeout=timeout)
    except subprocess.TimeoutExpired:
        return "watchdog", ""
    errs = [m for m in MIRI_ERR.findall(p.stderr) if not m.startswith("process didn't exit successfully")]
    if any("unsupported operation" in x for x in errs):
        return "unsupported", errs[0][:300]
    bad = [x for x in errs if any(w in x for w in ("Undefined Behavior", "Data race", "data race", "deadlock", "memory leaked", "abnormal termination"))]
    if bad:
        # keep the first in-repo location for the signature
        loc = re.search(r"-->\s+(/repo/[^\s:]+:\d+)", p.stderr)
        return "ub", (bad[0][:300] + (" at " + loc.group(1) if loc else ""))
    if p.returncode != 0:
        return "program-failed", (p.stderr[-400:])
    return "ok", ""


def c02_miri(chk, seeds=8):
    """A whole compile of a micro variable font (3 glyphs, 2 masters, kerning, 3 worker threads) inside Miri's
    interpreter, one run per scheduler seed: data races, deadlocks and UB in the scheduler / contexts / unsafe code."""
    import random
    import sys
    sys.path.insert(0, common.ROOT)
    from gen import model as M, ufo
    rng = random.Random(f"c02miri:{chk.seed}")
    m = M.build(rng, family="micro", n_axes=1, layout="onaxis", n_glyphs=3, composites=0.5, curves="lines", explicit_metrics=False, instances=1, mapped=0.0)
    M.add_kerning(m, rng, pairs=3)
    src = ufo.render(m, os.path.join(chk.scratch, "micro"))
    info = {"runs": 0, "ok": 0, "unsupported": 0, "watchdog": 0, "status": "ran"}

    def one(seed):
        out = os.path.join(chk.scratch, f"miri-{seed}.ttf")
        st, detail = miri_run("vapi", ["c20", "lib", src, out], seed=seed, env={"RAYON_NUM_THREADS": "3"}, timeout=2400)
        return seed, st, detail, os.path.exists(out)

    # the first run compiles the harness for Miri; run it alone so the others do not wait on the build lock
    results = [one(0)] + common.pmap(one, list(range(1, seeds)), workers=min(seeds, common.NCPU))
    for seed, st, detail, made in results:
        info["runs"] += 1
        if st == "ok" and made:
            info["ok"] += 1
        elif st == "ub":
            chk.violation("c02:miri:" + re.sub(r"\d+", "N", detail)[:80], f"Miri (seed {seed}) while compiling a micro font with 3 workers: {detail}", replay={"miri_seed": seed, "source": src})
        elif st in ("unsupported", "watchdog"):
            info[st] += 1
            chk.inconc({"why": f"miri {st}", "detail": detail[:200]})
        else:
            chk.inconc({"why": f"miri run {st}", "detail": detail[:200]})
    return info
