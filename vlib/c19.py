"""C19 - values that do not fit the binary format are rejected (or handled by a shape-preserving fallback), never
wrapped or clamped, and the optimised and the debug build of the compiler agree.

Each generated source carries one value at or just beyond a representable limit (gen/model.py boundary()).  It is
compiled by the release binary and by the debug binary (overflow checks and debug assertions on); outcomes are
classified (font / error / panic / signal) and must agree, successful builds must be byte-identical, and a
successful build is read back by every manifest oracle (advances, metrics, outlines, kerning, anchors, names of
`voracle src`, plus harness/src/eval/boundary.rs for unitsPerEm, weight / width class and resolved component
shapes): a value that does not read back is a clamped or wrapped value."""
import json
import os
import shutil
import subprocess

from . import common, gensrc, srccheck
from .common import Check, compile_font, pmap

RULE = ("generated sources with one planted value at limit-1 / limit / limit+1 / far beyond: advance widths and heights (65534..131071, negative), "
        "outline coordinates and successive differences (+-32767/8, 40000, 70000), component offsets, component 2x2 entries on and off the diagonal (1.99994, 2, -2, 2.0001, 3, -5; "
        "pure composites and glyphs with an outline of their own; default, --prefer-simple-glyphs=false and --flatten-components builds), "
        "kerning values, anchor coordinates, 16-bit global metrics, master-to-master deltas beyond 16 bits, unitsPerEm (15..100000), usWeightClass, "
        "usWidthClass; static, 1- and 2-axis; each compiled by the release and the debug binary; non-trivial = sources whose planted value lies "
        "beyond the limit")
ORACLE_PROPS = ("C03", "C04", "C05", "C09", "C10", "C19")
COMPONENT_ARGS = [[], ["--prefer-simple-glyphs=false"], ["--flatten-components"], ["--prefer-simple-glyphs=false", "--flatten-components"]]


def classify(r, out):
    if r.timed_out:
        return "watchdog"
    if r.sig:
        return f"signal {r.sig}"
    if r.rc == 0:
        return "font" if os.path.exists(out) else "exit 0 without font"
    if r.rc == 101:
        return "panic"
    return "error"


def evaluate(bins, dbg, chk, i, source):
    wd = os.path.join(chk.scratch, f"e{i}")
    res = {"source": source, "wd": wd}
    # component probes also go through the builds that restructure glyphs: a value that the default build decomposes away may survive
    # where contours are moved into a component or components are flattened
    args = []
    try:
        bnd = json.load(open(os.path.join(os.path.dirname(source), "manifest.json")))["boundary"]
    except Exception:  # noqa
        bnd = {}
    if bnd.get("mixed"):
        args = COMPONENT_ARGS[i % 2]  # an outline of its own: kept as a glyph with components only when simple glyphs are not preferred
    elif bnd.get("kind") in ("comp-scale", "comp-offset"):
        args = COMPONENT_ARGS[i % len(COMPONENT_ARGS)]
    res["args"] = args
    r1, o1, cmd = compile_font(bins["fontc"], source, wd, args=args, name="rel", threads=2, timeout=900, cpu_s=120)
    r2, o2, _ = compile_font(dbg["fontc"], source, wd, args=args, name="dbg", threads=2, timeout=1800, cpu_s=600)
    res.update(cmd=cmd, rel=classify(r1, o1), dbg=classify(r2, o2), rel_err=r1.stderr[-300:], dbg_err=r2.stderr[-300:], fonts=[o1, o2])
    if res["rel"] == "font" and res["dbg"] == "font":
        res["same_bytes"] = common.sha256_file(o1) == common.sha256_file(o2)
        if not res["same_bytes"]:
            res["diff_tables"] = common.table_diff(o1, o2)
    if res["rel"] == "font":
        man = os.path.join(os.path.dirname(source), "manifest.json")
        p = subprocess.run([bins["voracle"], "src", man, o1], capture_output=True, text=True, timeout=600)
        try:
            res["oracle"] = json.loads(p.stdout)
        except Exception:  # noqa
            res["oracle_error"] = (p.stderr or p.stdout)[-300:]
    return res


def judge(chk, res, man):
    b = man["boundary"]
    rel = os.path.basename(os.path.dirname(res["source"]))
    what = f"{b['kind']}={b.get('value')}"
    replay = {"source": res["source"], "cmd": res["cmd"], "boundary": b}
    files = [os.path.dirname(res["source"])] + [f for f in res["fonts"] if os.path.exists(f)][:1]
    fail = {"error", "panic"}
    if "watchdog" in (res["rel"], res["dbg"]):
        chk.inconc({"source": rel, "why": "watchdog"})
        return None
    for prof in ("rel", "dbg"):
        if res[prof].startswith("signal") or res[prof] == "exit 0 without font":
            chk.violation(f"c19:{b['kind']}:{prof}:{res[prof].split()[0]}", f"{rel} ({what}): {prof} build: {res[prof]}: {res[prof + '_err'][-200:]}", replay=replay, files=files)
            return None
    if (res["rel"] in fail) != (res["dbg"] in fail):
        chk.violation(f"c19:{b['kind']}:profiles-disagree", f"{rel} ({what}): the release build gives {res['rel']}, the debug build {res['dbg']}: {res['dbg_err'][-200:] if res['dbg'] in fail else res['rel_err'][-200:]}", replay=replay, files=files)
        return None
    if res["rel"] in fail:
        if b.get("accept") == "must":
            chk.violation(f"c19:{b['kind']}:within-limit:rejected", f"{rel} ({what}): a value the format can hold was refused: {res['rel_err'][-200:]}", replay=replay, files=files)
            return None
        return "rejected"
    if not res.get("same_bytes", True):
        chk.violation(f"c19:{b['kind']}:profiles-differ-in-bytes", f"{rel} ({what}): release and debug fonts differ in tables {res.get('diff_tables')}", replay=replay, files=files)
    if "oracle" not in res or res["oracle"].get("oracle_panicked"):
        chk.inconc({"source": rel, "why": "oracle failed: " + str(res.get("oracle_error", "panicked"))[:200]})
        return None
    bad = []
    for prop in ORACLE_PROPS:
        bad += [f"[{prop}] {m}" for m in res["oracle"]["violations"].get(prop, [])]
    if bad:
        side = "beyond" if b.get("beyond") else "within"
        chk.violation(f"c19:{b['kind']}:{side}-limit:not-preserved", f"{rel} ({what}, {side} the limit): exit 0 but the font does not carry the source's values: {bad[0][:300]}" + (f" (+{len(bad)-1} more)" if len(bad) > 1 else ""), replay=replay, files=files)
        return None
    return "preserved"


def big_ufo(path, n):
    """A static UFO with n trivial glyphs (the compiler adds .notdef)."""
    import plistlib
    os.makedirs(os.path.join(path, "glyphs"), exist_ok=True)
    plistlib.dump({"creator": "verif", "formatVersion": 3}, open(os.path.join(path, "metainfo.plist"), "wb"))
    plistlib.dump({"familyName": "Big", "styleName": "Regular", "unitsPerEm": 1000, "ascender": 800, "descender": -200}, open(os.path.join(path, "fontinfo.plist"), "wb"))
    plistlib.dump([["public.default", "glyphs"]], open(os.path.join(path, "layercontents.plist"), "wb"))
    plistlib.dump({}, open(os.path.join(path, "lib.plist"), "wb"))
    contents = {}
    for i in range(n):
        name = f"g{i:05d}"
        contents[name] = name + ".glif"
        with open(os.path.join(path, "glyphs", name + ".glif"), "w") as f:
            f.write(f'<?xml version="1.0" encoding="UTF-8"?>\n<glyph name="{name}" format="2">\n  <advance width="500"/>\n  <outline>\n    <contour>\n'
                    f'      <point x="0" y="0" type="line"/>\n      <point x="100" y="0" type="line"/>\n      <point x="50" y="{100 + i % 50}" type="line"/>\n'
                    '    </contour>\n  </outline>\n</glyph>\n')
    plistlib.dump(contents, open(os.path.join(path, "glyphs", "contents.plist"), "wb"))
    return path


def glyph_count_probes(chk, bins, tally):
    """More glyphs than a font can number (65 536 with .notdef) must be refused; thorough tier, release profile only
    (a debug build needs tens of minutes for 65k glyphs)."""
    from . import c05
    for n, accept in ((65535, "reject"), (60000, "must")):
        src = big_ufo(os.path.join(chk.scratch, f"big{n}", f"Big-{n}.ufo"), n)
        wd = os.path.join(chk.scratch, f"big{n}", "out")
        r, out, cmd = compile_font(bins["fontc"], src, wd, name="rel", threads=16, timeout=3000, cpu_s=3000)
        outcome = classify(r, out)
        chk.coverage["evaluations"] += 1
        key = f"glyph-count:{n + 1}:{outcome}"
        tally[key] = tally.get(key, 0) + 1
        replay = {"cmd": cmd, "glyphs_incl_notdef": n + 1}
        if outcome == "watchdog":
            chk.inconc({"why": "glyph-count probe watchdog", "n": n})
        elif outcome.startswith("signal") or outcome == "exit 0 without font":
            chk.violation(f"c19:glyph-count:{outcome.split()[0]}", f"{n + 1} glyphs: {outcome}: {r.stderr[-200:]}", replay=replay)
        elif outcome == "font" and accept == "reject":
            chk.violation("c19:glyph-count:beyond-limit:font-emitted", f"a source with {n + 1} glyphs (incl. .notdef) compiled to a font", replay=replay, files=[out])
        elif outcome == "font":
            rep = c05.oracle(bins["voracle"], [out]).get(out, {})
            if rep.get("num_glyphs") != n + 1 or rep.get("errors"):
                chk.violation("c19:glyph-count:within-limit:not-preserved", f"{n + 1} glyphs: font has {rep.get('num_glyphs')} glyphs, walker errors {rep.get('errors', [])[:2]}", replay=replay, files=[out])
        elif accept == "must":
            chk.violation("c19:glyph-count:within-limit:rejected", f"a source with {n + 1} glyphs was refused: {r.stderr[-200:]}", replay=replay)
        shutil.rmtree(os.path.join(chk.scratch, f"big{n}"), ignore_errors=True)


def run(tier):
    chk = Check("C19", tier)
    bins = common.build("rel", ("fontc", "voracle"))
    dbg = common.build("dbg", ("fontc",))
    n = 64 if tier == "quick" else 1200
    srcs = gensrc.sources_for("C19", chk, n)
    tally = {}
    samples = []
    nontrivial = 0
    for res in pmap(lambda ic: evaluate(bins, dbg, chk, ic[0], ic[1]), list(enumerate(srcs))):
        chk.coverage["evaluations"] += 1
        man = json.load(open(os.path.join(os.path.dirname(res["source"]), "manifest.json")))
        b = man["boundary"]
        verdict = judge(chk, res, man)
        key = f"{b['kind']}:{'beyond' if b.get('beyond') else 'within'}:{verdict or 'flagged'}"
        tally[key] = tally.get(key, 0) + 1
        if b.get("beyond"):
            nontrivial += 1
        if len(samples) < 4 and b.get("beyond"):
            samples.append({"source": os.path.basename(os.path.dirname(res["source"])), "boundary": b, "release": res["rel"], "debug": res["dbg"], "verdict": verdict})
        shutil.rmtree(res["wd"], ignore_errors=True)
    if tier == "thorough":
        glyph_count_probes(chk, bins, tally)
    chk.coverage.update({"distinct_nontrivial": nontrivial, "rule": RULE, "samples": samples, "c19_outcomes_by_kind": dict(sorted(tally.items()))})
    chk.assumptions += ["agreement = both profiles fail or both succeed with identical bytes (an error in one and a panic in the other both count as failing)",
                        "a value within the limit must be accepted and read back; a value beyond it must be rejected or the shape preserved; values whose "
                        "neighbourhood (point-to-point distance, derived .notdef / vertical origin) may or may not fit are allowed either outcome"]
    return chk.finish()


def replay(path):
    rec = json.load(open(path))
    rp = rec["replay"]
    chk = Check("C19", "quick")
    bins = common.build("rel", ("fontc", "voracle"))
    dbg = common.build("dbg", ("fontc",))
    src = rp["source"]
    fd = rec.get("files_dir")
    if not os.path.exists(src) and fd:
        cand = os.path.join(fd, os.path.basename(os.path.dirname(src)), os.path.basename(src))
        if os.path.exists(cand):
            src = cand
    res = evaluate(bins, dbg, chk, 0, src)
    man = json.load(open(os.path.join(os.path.dirname(src), "manifest.json")))
    judge(chk, res, man)
    chk.coverage.update({"evaluations": 1, "distinct_nontrivial": 2, "rule": "replay", "samples": [rp]})
    return chk.finish()
