#!/usr/bin/env python3
"""Regenerate MANIFEST.json from the table below (run after adding a check)."""
import json
import os
import subprocess

ROOT = os.path.dirname(os.path.dirname(os.path.abspath(__file__)))

# id -> (level, technique, level text, level note, design ref)
CHECKS = {
    "C01": ("exploration", "runtime monitoring: repeated real compiles under forced hash seeds (getrandom shim), thread counts and seeded scheduler jitter; sha256 oracle",
            "Every cell (source, options) is compiled K times in separate processes whose hidden inputs (HashMap seeds, worker count, interleaving) are forced to differ; the oracle is byte equality. Held = no cell produced two outputs on the runs observed.",
            "Trusts the LD_PRELOAD getrandom shim to vary std RandomState (verified: launch orders differ per seed); cannot force one specific adversarial seed; inputs = corpus + generator families.", "DESIGN.md §5 C01"),
    "C02": ("exploration", "runtime monitoring: scheduler/ACL hook trace + offline happens-before race checker with predictive launch analysis; outcome monitor; seeded jitter",
            "Every context access and scheduler transition of real compiles is logged; an offline checker rebuilds the forced-order DAG (dependencies enforced at launch, creation, unblocking) and requires every conflicting access pair to be ordered by it, also for every earlier poll point at which the job could already have been launched. One trace therefore vouches for all timings of the same job graph.",
            "Trusts the discriminant tables and the hook placement (end/complete logged before, launch after the state change); job graphs explored = corpus + generator families x options x thread counts.", "DESIGN.md §5 C02, Appendix A"),
    "C14": ("exploration", "runtime monitoring: with/without --emit-ir byte compare; read-back probe hook on every persisted set(); written-file-map injectivity checker; stale build-dir histories",
            "Each source is compiled with and without --emit-ir (sha compare); with it, a hook re-reads every item right after it is written and reports readable/equal/byte-fixpoint, and every (item -> path) write is logged and checked for collisions (also under ASCII case folding). Histories reuse a build dir left by another source.",
            "Table-typed items are judged by byte fixpoint, serde-typed by ==; case-insensitive file systems are modelled, not mounted; hostile glyph names are bounded to NAME_MAX-safe lengths.", "DESIGN.md §5 C14"),
    "C05": ("exploration", "runtime monitoring: every emitted font walked by an independent container walker + full read-fonts traversal + cross-reference checker",
            "Every font a broad workload (corpus + generator families x option sets) produces is checked from its bytes alone: directory order/offsets/padding/checksums/checkSumAdjustment, required tables, complete recursive traversal, glyph-count agreement, every glyph/lookup/feature/name/region/axis reference in range, acyclic component graph within maxp.",
            "read-fonts is the trusted independent parser; device offsets of value records nested in class records are excluded from the generic traversal (resolved against the wrong base by read-fonts).", "DESIGN.md §5 C05"),
    "C15": ("fault_enumeration", "runtime monitoring under fault injection: structural source mutators + exhaustive component-cycle shapes, each run as an rlimited fontc process; exit-status oracle + C05 walker",
            "All component-cycle shapes (length 1-4 x scaled x non-export member x used from outside) x 3 option sets are enumerated exhaustively; FEA include loops and sampled structural mutants (truncation, dropped/duplicated/swapped lines and blocks, extreme numbers, byte flips, empty/missing files, token soup) of 23 corpus seeds follow. Verdict per case: never a signal, never the CPU limit, exit!=0 => no font, exit 0 => font passes the C05 walker.",
            "Termination is restated as a 60 CPU-second bound (>400x normal cost); RLIMIT_AS 8 GiB; exit 101 (main-thread panic with message, no font) is counted but not a violation.", "DESIGN.md §5 C15"),
    "C07": ("exploration", "runtime monitoring: in-process API monitor over fontdrasil::variations with reconstruction / tent / scalar / order-independence oracles, in rlimited children under forced hash seeds",
            "Hostile location sets and value vectors are pushed through VariationModel::new, deltas_with_rounding and interpolate_from_deltas; every master must be reconstructed (1e-9 unrounded, 0.5 rounded, default exact), every tent valid, every scalar in [0,1] and equal to an independent implementation of the spec formula, and the result independent of supply order.",
            "Uses the public API the property anchors on; scalar formula re-implemented independently; axes 1-4, <= 8 masters per layout.", "DESIGN.md §5 C07"),
    "C13": ("exploration", "runtime monitoring: fea_rs::parse::parse_root driven with corpus / mutated / grammar / soup / include-graph inputs inside journaling rlimited child processes; losslessness, diagnostic-range, totality oracles; split route: error-free files re-parsed as include graphs cut at statement boundaries, diagnostics compared position by position",
            "Each input is parsed through the public entry point with an in-memory resolver under catch_unwind, RLIMIT_AS 2 GiB and a CPU limit; the child journals the input index first so a death is attributed and the run continues. Oracles: no panic / no death, token texts concatenate to the input, diagnostic ranges inside their source on char boundaries, display() total, cycles and depth > 50 reported, validate() total on error-free trees. Split route: every error-free single file is also cut into an include graph (top-level statements, nested includes, feature-block items); the assembled tree must spell the flat text and each parse / validation diagnostic must come back with the same message at the file and offset its position moved to.",
            "Token-concatenation is asserted for include-free inputs and for the include graphs of the split route; termination is a CPU-time bound; witnesses are delta-minimised with a bounded number of child runs.", "DESIGN.md §5 C13"),
    "C16": ("exploration", "runtime monitoring: API-level monitor of overlay_feature_variations against the source rule semantics at sampled points + end-to-end: generated designspace <rules> compiled by the CLI, FeatureVariations evaluated by an independent raw-bytes interpreter",
            "API level: random rule lists are overlaid by the real code and the returned boxes evaluated (first containing box wins) at sampled normalized locations against 'all applicable rules in order, earlier wins'. End to end: designspace rules (1-5 rules, 1-2 condition sets, conditions on 1-3 axes in design coordinates through axis maps, open-ended / nested / identical boxes, one-sided axes, rvrn and rclt) are compiled and every glyph is pushed through the font's FeatureVariations + lookups at box edges +-1/2 quanta, centres, extremes and the default. Asserted on points more than 1.5 F2Dot14 quanta from every box edge where applicable rules do not conflict; conflicting points are reported under known finding F8.",
            "Exact-edge points are counted, not asserted (the overlay drops zero-width intersections like fontTools); only normalized locations the axis can reach are sampled; the same rule models are also rendered as Glyphs bracket layers (substitutes identified through post names, compared by outline and - at every master, one of which links its metrics to the first - by advance); composites of bracket glyphs come from the corpus only.", "DESIGN.md §5 C16, §9"),
    "C03": ("exploration", "runtime monitoring: compiled variable fonts instantiated at every master by an independent gvar tuple-scalar + IUP evaluator, compared point by point with the generator's manifest",
            "Generated variable sources are compiled by the real CLI; each glyph is instantiated at each of its master locations by my own evaluator and compared with the rounded master outline / component offsets under the property's own bound (0.5 + 0.5 x sum of active scalars; default exact, correspondence discovered by exact match of the default outline).",
            "read-fonts decodes the tables, every evaluation rule (tents, IUP, phantom points) is re-implemented; cubic sources are compiled and checked by C12/C05 but not pointwise here; restructured composites (nested / non-export / flatten) are compared by C12.", "DESIGN.md §5 C03"),
    "C04": ("exploration", "runtime monitoring: own ItemVariationStore / DeltaSetIndexMap evaluator on HVAR, VVAR, MVAR + gvar phantom points vs per-master source metrics from the manifest",
            "For every glyph and master: hmtx+HVAR (vmtx+VVAR) within 1 of the rounded master advance and of the gvar phantom-point advance; for every fontinfo metric with a 1:1 table field: default value exact, MVAR-evaluated value at each master equal to the rounded master value (+-1 only with a fractional scalar), a metric without an MVAR record must not vary.",
            "Only metrics set explicitly per master (no fallback chains) are asserted.", "DESIGN.md §5 C04"),
    "C06": ("exploration", "runtime monitoring: expected glyph set / order / cmap / post names computed from the manifest by an independent model of the documented rules, compared with the emitted font",
            "Sources with full / partial / absent declared order, .notdef in every position, skipExport glyphs used as nested components, multiple and supplementary codepoints, public.postscriptNames and mixed glyphs are compiled; the font's glyph list, cmap (both directions) and post names must be exactly the model's.",
            "Names are asserted exactly under --no-production-names; with production names only 1:1-ness and explicit public.postscriptNames are asserted (glyph-data naming is not re-derived).", "DESIGN.md §5 C06"),
    "C08": ("exploration", "runtime monitoring: own fvar default-normalization + avar evaluator vs an independent piecewise-linear model of the source axis maps, at nodes and off-node coordinates",
            "Hostile axis definitions (2-9 nodes, default anywhere, non-integer nodes, slopes 0.05-20, flat segments, identity-with-bends) are compiled in tiny fonts; fvar bounds, required avar entries, monotonicity, instance ranges and avar(defaultNormalize(u)) == normalize(design(u)) within the F2Dot14 bound are checked at ~40 coordinates per axis.",
            "A flat first/last segment (user min/max mapping onto the design default) is excluded on that side: finding F9.", "DESIGN.md §5 C08"),
    "C17": ("exploration", "runtime monitoring: every summary field recomputed from the emitted glyf/hmtx/vmtx/cmap tables and compared with head/hhea/vhea/maxp/OS-2",
            "For each font of a broad workload the head bbox, every glyph box (composites resolved through their transforms), hhea/vhea maxima, minima, extents and long-metric counts, maxp maxima, loca format, OS/2 average width, first/last character index and a committed table of unambiguous Unicode-range bits (+ bit 57) are recomputed from the tables alone and must be equal.",
            "Glyph boxes are required to cover all on-curve points and stay inside the control polygon (the spec allows either); usMaxContext and code-page bits are not recomputed; sources that set their Unicode ranges explicitly are exempt from the range bits.", "DESIGN.md §5 C17"),
    "C20": ("exploration", "runtime monitoring: the same design compiled through every entry point / container / equal re-formatting, sha256 equality oracle",
            "Each Glyphs file or UFO is compiled by the CLI, by the library entry points (path and in-memory text, built from the same rlibs in the same workspace), from an independently split .glyphspackage, from a one-source designspace carrying the same public.* keys, and from re-formatted but equal text; all outputs must be byte-identical to the CLI's.",
            "The re-emitters change whitespace, plist key order, XML attribute order and optional quoting of identifier-like strings only; a route whose re-emitted source is rejected counts inconclusive. A designspace cannot express 'no axes', the wrapper uses a point axis with a private tag.", "DESIGN.md §5 C20"),
    "C12": ("exploration", "runtime monitoring: the same source built under all 16 component-option subsets, every glyph drawn at masters and random locations and compared with the fully decomposed build",
            "Generated sources with nested, scaled / flipped / rotated (within and beyond +-2), mixed and non-export components are compiled under every subset of {flatten, decompose-all, decompose-transformed, prefer-simple-glyphs=false}; resolved outlines (contours up to start point / direction) and advances must agree with the decompose-all build within the property's rounding bound at every master, and within a looser bound in between.",
            "skrifa only renders (resolves components, applies gvar); the tolerance per nesting level is 1.05 units plus 2 x (scale-1) for scaled components whose base-glyph rounding is magnified; off-master locations use a looser bound (gross changes only).", "DESIGN.md §5 C12"),
    "C09": ("exploration", "runtime monitoring: compiled GPOS kern lookups applied by an independent raw-bytes PairPos + VariationIndex interpreter at every kerning master, compared with the UFO kerning lookup algorithm run on the manifest",
            "Generated sources with group / glyph pairs, exceptions both ways, zero pairs, .5 ties, per-master divergent or missing groups, pairs in only some masters, masters without kerning and > 256 pairs are compiled by the real CLI; for every master that defines kerning and every ordered pair of exported glyphs the adjustment the kern feature applies (DFLT and latn) must equal the rounded UFO lookup value on that master's own kerning and groups.",
            "Domain = one LTR script, no GDEF marks (where the kern writer's script / bidi / mark splitting is the identity); +-1 tolerated only when a contributing region scalar is fractional (intermediate masters).", "DESIGN.md §5 C09"),
    "C10": ("exploration", "runtime monitoring: compiled MarkBasePos / MarkMarkPos / MarkLigPos + GDEF decoded from raw bytes and evaluated (with the variation store) at every master, compared with the source anchors in the manifest",
            "Generated sources with base, stacking-mark and ligature-component anchors under several names, varying per master, with explicit public.openTypeCategories are compiled; every (attaching glyph / component, mark) pair that shares an anchor name must be attached by a lookup reachable from mark/mkmk with anchors equal to the rounded source anchors at each master, nothing else may be attached, and source marks must be GDEF class 3.",
            "Classification is taken from explicit public.openTypeCategories (sources without them are not asserted); anchor propagation through composites is not generated for UFO sources.", "DESIGN.md §5 C10"),
    "C11": ("exploration", "runtime monitoring: random feature programs compiled by fea_rs::Compiler in rlimited children, compiled GSUB/GPOS applied by an independent raw-bytes OTL interpreter, compared with a direct interpreter of the program's AST",
            "Programs from a grammar over languagesystems, named classes, GDEF classes, standalone and nested named lookups, every lookupflag kind, single / multiple / alternate / ligature / chaining-contextual substitution (explicit lookups, inline single, inline ligature, ignore) and single / pair (glyph, enum, class) / contextual positioning, script and language statements (exclude_dflt) are compiled; every string of length <= 3 over the mentioned glyphs (+ random strings <= 6) is shaped under every registered language system and two unregistered ones, with all features on and each alone, and must come out exactly as the AST interpreter says (glyphs and accumulated value records).",
            "Programs whose meaning the specification leaves open (duplicate keys in a lookup, overlapping pair classes, a lookup reference or no-op lookupflag between mergeable rules, a feature re-opened with script statements, a script statement naming the only system in force) are generated but not judged; aalt, size, cursive, mark-attachment positioning and useExtension are outside the grammar.", "DESIGN.md §5 C11"),
    "C18": ("exploration", "runtime monitoring: every name-id reference in fvar / STAT / GSUB+GPOS feature parameters walked from the emitted font and resolved in the name table; strings compared with the manifest and with an independent model of the documented naming fallbacks; 3 forced hash seeds per source",
            "Generated naming configurations (every naming field present or absent, RIBBI / non-RIBBI styles, axis, instance and PostScript names colliding with family / style / full / axis strings and with each other, one string under several reserved ids, featureNames / cvParameters (several features, repeated parameter labels) / table name in feature code, static and variable) are compiled under three hash seeds: bytes must agree, every referenced id must have a non-empty record, reserved ids appear only where the spec allows (2/17 for the default instance and the STAT elided fallback, 6 for a PostScript name), strings equal the source's, and ids 1-6, 16, 17 equal the model of ufo2ft's fallback rules.",
            "Only UFO/designspace naming fields that fontc maps are generated (postscriptFullName, localized names and STAT from feature code are not); an unused cvParameters field holding 0xFFFF is read as unset, like NULL.", "DESIGN.md §5 C18"),
    "C19": ("exploration", "runtime monitoring: boundary-valued sources compiled by the release and the debug binary; outcome classification and agreement oracle, read-back of every planted value through the manifest oracles, own glyf delta decoder (32-bit accumulation) and resolved-shape comparison",
            "Sources with one value at limit-1 / limit / limit+1 / far beyond (advances, coordinates and point-to-point distances, component offsets and 2x2 entries, kerning, anchors, 16-bit metrics, master-to-master deltas, unitsPerEm, weight and width class) are built in both profiles: the outcomes must agree (both fail, or byte-identical fonts); a representable value must be accepted and read back unchanged; a value beyond the limit must be rejected or handled so that the resolved outline is the source's; a stored glyf delta must not have wrapped.",
            "Known findings F25-F29 (saturated anchors, kerning, global metrics, component offsets; a derived overflow in vertical_metrics.rs) are reported as KNOWN-FINDING; > 65535 glyphs is not generated (see DESIGN.md); agreement is between the two profiles that can be built, not all optimisation levels.", "DESIGN.md §5 C19"),
}

NOT_YET = {}


def hook_commits():
    out = subprocess.run(["git", "-C", "/repo", "log", "--format=%h %s"], capture_output=True, text=True).stdout
    return [l.split()[0] for l in out.splitlines() if l.split(" ", 1)[1].startswith("verif hooks")]


def main():
    props = [json.loads(l) for l in open(os.path.join(ROOT, "properties.jsonl"))]
    checks, na = [], []
    for p in props:
        pid = p["id"]
        if pid in CHECKS:
            level, tech, text, note, ref = CHECKS[pid]
            checks.append({
                "property_id": pid,
                "quick_cmd": f"./check {pid} --tier quick",
                "thorough_cmd": f"./check {pid} --tier thorough",
                "evidence_file": f"evidence/{pid}.json",
                "replay_cmd_template": f"./check {pid} --replay {{path}}",
                "level_claimed": {"category": level, "text": text, "design_ref": ref},
                "level_note": note,
                "technique": tech,
            })
        else:
            na.append({"property_id": pid, "reason": NOT_YET.get(pid, "check not built yet in this round (runtime-monitoring design in DESIGN.md §5); not claimed until its monitor exists and is silent on the unchanged tree")})
    m = {
        "version": 1,
        "setup_cmd": "./check --setup",
        "hooks": {
            "guard": "fontc_verif",
            "enable": "RUSTFLAGS='--cfg fontc_verif' (set by /verif/harness/.cargo/config.toml; every check builds /repo's crates through that workspace)",
            "baseline_off_cmd": "cd /repo && cargo nextest run --workspace --no-fail-fast --test-threads 8 --offline || (cd /repo && cargo test --workspace --no-fail-fast --offline)",
            "source_commits": hook_commits(),
            "add_only": True,
        },
        "engines": [
            {"name": "check", "path": "check", "serves_properties": [c["property_id"] for c in checks],
             "kind_free_text": "python driver: builds /repo with hooks on, generates workloads, runs the real compiler under monitors, decides, writes evidence"},
            {"name": "vharness", "path": "harness", "serves_properties": [c["property_id"] for c in checks],
             "kind_free_text": "Rust workspace with path dependencies on /repo's crates: builds the real fontc CLI plus oracle/monitor binaries"},
        ],
        "checks": checks,
        "not_applicable": na,
        "notes": "All checks are runtime monitors over real executions (see DESIGN.md). Exit 2 = inconclusive (never a VIOLATION line).",
    }
    with open(os.path.join(ROOT, "MANIFEST.json"), "w") as f:
        json.dump(m, f, indent=1)
    print("checks:", [c["property_id"] for c in checks], "not_applicable:", len(na))


if __name__ == "__main__":
    main()
