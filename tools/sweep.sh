#!/bin/bash
# sweep.sh <tier> <seed>... : run every registered check at the given seeds; print one line per (check, seed)
tier=$1; shift
cd /verif
for seed in "$@"; do
  for id in $(python3 -c "import json; print(' '.join(c['property_id'] for c in json.load(open('MANIFEST.json'))['checks']))"); do
    t0=$(date +%s)
    out=$(VERIF_SEED=$seed ./check $id --tier $tier 2>&1); rc=$?
    echo "seed=$seed $id rc=$rc $(( $(date +%s) - t0 ))s $(echo "$out" | grep -c '^VIOLATION') violations; $(echo "$out" | grep '^VIOLATION' -A1 | grep -v '^VIOLATION' | head -2 | cut -c1-260 | tr '\n' ' ')"
  done
done
