#!/usr/bin/env python3
"""keep_mutant.py <worktree> <seeded-name> <caught-by> <what-I-ran...>: copy a confirmed seeded mutant into /verif/seeded/."""
import json, os, shutil, sys
wt, name, caught = sys.argv[1:4]
ran = sys.argv[4:]
src = os.path.join(wt, "_out")
dst = os.path.join("/verif/seeded", name)
shutil.rmtree(dst, ignore_errors=True)
os.makedirs(dst)
shutil.copy(os.path.join(src, "patch.diff"), dst)
if os.path.isdir(os.path.join(src, "demo")):
    shutil.copytree(os.path.join(src, "demo"), os.path.join(dst, "demo"))
meta = json.load(open(os.path.join(src, "meta.json")))
logs = {}
for f in ("confirm_suite.log",):
    p = os.path.join(src, f)
    if os.path.exists(p):
        t = open(p, errors="replace").read()
        logs["suite_ok_tests"] = t.count("... ok")
        logs["suite_failed"] = [l for l in t.splitlines() if l.endswith("... FAILED")]
out = {"property": meta.get("property"), "summary": meta.get("summary"), "needs_to_manifest": meta.get("needs_to_manifest"),
       "files_touched": meta.get("files_touched"), "author": "independent sub-agent given only the property text and a scratch worktree",
       "agent_tests_run": meta.get("tests_run"),
       "confirmed_by_me": {"what_i_ran": ran, **logs,
                           "note": "suite failures listed are the 3 fea-rs tests that need the absent `ttx` tool and fail on the unchanged tree too"},
       "caught_by": caught}
json.dump(out, open(os.path.join(dst, "meta.json"), "w"), indent=1)
print("kept", dst)
