#!/bin/bash
# selftest_seeded.sh [tier] [name-filter]: apply every seeded change to /repo in turn, run the check of its property,
# undo it; report caught / MISSED.  Nothing else may use /repo or /verif/target meanwhile.
tier=${1:-quick}; filt=${2:-}
cd /verif
git -C /repo diff --quiet || { echo "/repo has local changes"; exit 2; }
for d in seeded/*${filt}*/; do
  name=$(basename "$d"); prop=${name%%-*}
  if grep -q '"superseded"' "/verif/$d/meta.json"; then echo "$name: SUPERSEDED (see meta.json)"; continue; fi
  git -C /repo apply "/verif/$d/patch.diff" 2>/dev/null || { echo "$name: PATCH-DOES-NOT-APPLY"; continue; }
  t0=$(date +%s)
  out=$(./check "$prop" --tier "$tier" 2>&1); rc=$?
  git -C /repo checkout -- .
  git -C /repo clean -fdq
  if [ $rc -eq 1 ]; then echo "$name: caught ($(echo "$out" | grep -c '^VIOLATION') violation lines, $(( $(date +%s) - t0 ))s)";
  else echo "$name: MISSED rc=$rc ($(( $(date +%s) - t0 ))s)"; fi
done
