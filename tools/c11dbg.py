#!/usr/bin/env python3
"""c11dbg.py <seed> <chunk> <i> [string...]: print a generated program, the model's elaboration and both results."""
import json, os, random, subprocess, sys
sys.path.insert(0, "/verif")
from gen import fea
from vlib.feainterp import Model
from vlib import c11
seed, chunk, idx = sys.argv[1:4]
rng = random.Random(f"c11:{seed}:{chunk}")
for n in range(int(idx) + 1):
    p, text = fea.make(rng)
    strs = c11.strings_for(p, rng, 200 if os.environ.get("TIER", "quick") == "quick" else 140)
print(text)
m = Model(p)
for i, l in enumerate(m.lookups):
    print(i, l["kind"], l["type"], l["flag"], len(l["rules"]))
for k, v in sorted(m.features.items(), key=str):
    print(k, v)
if len(sys.argv) > 4:
    sysname = sys.argv[4]
    s = sys.argv[5:]
    script, lang = sysname.split("/")
    json.dump({"programs": [{"id": "x", "fea": text, "glyphs": p["glyphs"], "strings": [s], "systems": [[script, lang]], "alts": 1}]}, open("/verif/out/dbg/in.json", "w"))
    subprocess.run(["/verif/target/release/vapi", "c11", "/verif/out/dbg/in.json", "/verif/out/dbg/out.jsonl"])
    o = json.loads(open("/verif/out/dbg/out.jsonl").read())
    print("font systems", o.get("font_systems"), "lookups", o.get("lookups"))
    for k, v in o["results"].items():
        if k.startswith(sysname):
            mode = k.split("|")[1]
            buf, pos = m.shape(s, script, lang, None if mode == "*" else [mode], 1)
            print(k, "font:", v[0], " model:", c11.fmt(buf, pos))
