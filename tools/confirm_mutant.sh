#!/bin/bash
# confirm_mutant.sh <worktree> <demo cargo-test args...>   (CARGO_TARGET_DIR taken from $WT_TARGET, default /tmp/wt/target)
# 1. patch applied: whole existing suite must pass;  2. patch + demo: demo must FAIL;  3. demo only: demo must PASS.
set -u
WT=$1; shift
export CARGO_TARGET_DIR=${WT_TARGET:-/tmp/wt/target} CARGO_NET_OFFLINE=true
unset RUSTFLAGS
cd "$WT" || exit 2
git checkout -q -- . ; git clean -fdq -e _out
git apply _out/patch.diff || { echo "CONFIRM patch does not apply"; exit 2; }
cargo test --workspace --no-fail-fast --offline -j 8 > _out/confirm_suite.log 2>&1
fails=$(grep -E "^test .* \.\.\. FAILED" _out/confirm_suite.log | grep -v -E "fonttools_tests|import_resolution|should_pass" | wc -l)
oks=$(grep -c "\.\.\. ok" _out/confirm_suite.log)
echo "CONFIRM suite-with-patch: ok=$oks unexpected_failures=$fails"
if [ -f _out/demo/demo.diff ]; then git apply _out/demo/demo.diff || echo "CONFIRM demo.diff does not apply"; fi
cargo test --offline -j 8 "$@" > _out/confirm_demo_with.log 2>&1; rc_with=$?
git apply -R _out/patch.diff
cargo test --offline -j 8 "$@" > _out/confirm_demo_without.log 2>&1; rc_without=$?
echo "CONFIRM demo: with-patch rc=$rc_with (want !=0)  without-patch rc=$rc_without (want 0)"
git checkout -q -- . ; git clean -fdq -e _out
