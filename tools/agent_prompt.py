#!/usr/bin/env python3
"""agent_prompt.py <property id> <worktree> : print the prompt given to an independent mutant-writing sub-agent.
The agent gets only the property's text and its scratch worktree - nothing from /verif."""
import json, sys
pid, wt = sys.argv[1], sys.argv[2]
hint = sys.argv[3] if len(sys.argv) > 3 else ""
p = next(json.loads(l) for l in open("/verif/properties.jsonl") if json.loads(l)["id"] == pid)
tag = wt.rstrip("/").split("/")[-1]
print(f"""You are working in a scratch git worktree of the googlefonts/fontc repository (a Rust font compiler: Glyphs/UFO/designspace sources -> IR -> OpenType binaries, with its own feature-file compiler fea-rs) at {wt}. Work ONLY inside {wt}; never touch /repo or /verif and do not read anything under /verif. There is no network: always use `cargo ... --offline`, and set `CARGO_TARGET_DIR=/tmp/wt/target-{tag}` for every cargo command (keeps build output out of the worktree).

This property is supposed to hold for fontc:

  id: {p['id']}
  title: {p['title']}
  statement: {p['statement']}
  quantified over: {p['quantifier']['text']}
  why the existing tests cannot settle it: {p['why_tests_cant']}
  code it is anchored in: {', '.join(p['anchors']['files'])}

YOUR TASK: write a realistic change to fontc's source (the kind of bug a plausible refactor, optimisation, clean-up or well-meant bug fix could introduce) that BREAKS this property, while
 (a) the workspace still compiles,
 (b) the entire existing test suite still passes: `cargo test --workspace --no-fail-fast --offline -j 8` (three fea-rs tests - `fonttools_tests`, `import_resolution`, `should_pass` - fail on the unchanged tree because the `ttx` tool is absent: ignore exactly those three), and
 (c) the breakage needs something specific to manifest - a particular unusual input shape, a specific option combination, a multi-step sequence, a particular interleaving or hash order, or two cooperating sites that each look fine alone - NOT something ordinary use or the first fixture you try would expose at once. Subtle is better than blatant; it must still be a real violation of the property's statement, observable in the compiler's output/behaviour.{(' ' + hint) if hint else ''}
Also write a DEMONSTRATION: a new test added to the repo (preferred; as a separate diff) or a small program that FAILS with your change and PASSES without it, demonstrating the property violation on a concrete input.

Deliverables, all under {wt}/_out/ :
  patch.diff        - `git diff` of the source change only (no tests); must apply with `git apply` on a clean checkout
  demo/demo.diff    - diff adding the demonstration test(s) and any test data; must apply on a clean checkout independently of patch.diff
  demo/README.txt   - the exact cargo command that runs just the demo, e.g. `cargo test --offline -p fontbe --lib {p['id'].lower()}_demo`
  meta.json         - keys: property, summary (what was changed and why it breaks the property), needs_to_manifest (what input/sequence/configuration is needed), files_touched, tests_run (what you ran, with results)
Verify yourself: (1) patch applied -> full suite passes (apart from the 3 known failures); (2) patch + demo -> demo fails; (3) demo without patch -> demo passes. Finally leave the worktree clean (`git checkout -- . && git clean -fdq -e _out`) so only _out/ remains. Reply with a short summary (what you changed, what is needed to manifest, and the demo command).""")
